#!/usr/bin/env python3
"""./check.py <PROPERTY-ID> [--tier quick|thorough]        decide one property on /repo's current tree
   ./check.py --replay <FILE>                              re-run a recorded violation against the real code

exit 0  the property held on everything explored (KNOWN-FINDING lines may be printed)
exit 1  a violation was found:   VIOLATION property=<id> replay=<path> [no-failing-input-found]
exit 2  undecided (lost anchor, construct outside the dialect, resource limit, tool failure) — never an alarm
"""
import argparse
import hashlib
import json
import os
import sys
import time

HERE = os.path.dirname(os.path.abspath(__file__))
sys.path.insert(0, os.path.join(HERE, "vf"))
import props as P          # noqa: E402
import verus_run           # noqa: E402
import cex                 # noqa: E402
import bounded             # noqa: E402
import scans               # noqa: E402

REPO = os.environ.get("VERIF_REPO", "/repo")
EVID = os.environ.get("VERIF_EVIDENCE_DIR", os.path.join(HERE, "evidence"))   # seeded-change runs point this elsewhere
REPLAYS = os.path.join(HERE, "replays")


def load_known():
    with open(os.path.join(HERE, "known_findings.json")) as f:
        return json.load(f)


def known_match(known, pid, key):
    for k in known.get("findings", []):
        if k.get("status") == "open" and k["property"] == pid and k["key"] == key:
            return k
    return None


def write_replay(pid, key, payload):
    os.makedirs(REPLAYS, exist_ok=True)
    h = hashlib.sha256((pid + key).encode()).hexdigest()[:10]
    path = os.path.join(REPLAYS, f"{pid}-{h}.json")
    with open(path, "w") as f:
        json.dump(payload, f, indent=1)
    return path


def do_replay(path):
    with open(path) as f:
        r = json.load(f)
    print(f"replay of {r.get('property')} / {r.get('key')}")
    if r.get("kind") == "input":
        res = cex.replay(r["harness"], r["inputs"])
        bad = False
        for x in res:
            print(f"[{x['profile']}] rc={x['rc']} {x['output'].strip()}")
            bad = bad or x["rc"] == 1
        if bad:
            print(f"VIOLATION property={r['property']} replay={path}")
            return 1
        print("the recorded input no longer violates the property on the current tree")
        return 0
    if r.get("kind") == "driver":
        return bounded.replay_driver(r, path)
    if r.get("key", "").startswith("bounded.") or not r.get("world"):
        # bounded harness without a recorded input: run the harness's native search again on the current tree
        hname = r["key"].split(".", 1)[1].split("#")[0] if r.get("key", "").startswith("bounded.") else (P.cex_for(r.get("key", "")) or "")
        found = cex.search(hname, 0) if hname else None
        if found and found.get("found"):
            print(f"failing input for {hname}: {found['inputs']}  ({found.get('message')})")
            print(f"VIOLATION property={r['property']} replay={path}")
            return 1
        print("no failing input on the current tree" if found is not None else "no harness to replay")
        return 0 if found is not None and found.get("found") is False else 2
    # obligation-only replay: re-run the verifier on the current tree and report whether the obligation still fails
    w = verus_run.run_world(r["world"], repo=REPO)
    still = [v for v in w["violations"] if v["obligation"] == r["key"]]
    if still:
        print(still[0]["rendered"])
        print(f"VIOLATION property={r['property']} replay={path} no-failing-input-found")
        return 1
    print("obligation discharged on the current tree" if w["status"] != "undecided" else f"undecided: {w['reason'] or w['undecided'][:1]}")
    return 0 if w["status"] != "undecided" else 2


def main():
    ap = argparse.ArgumentParser()
    ap.add_argument("pid", nargs="?")
    ap.add_argument("--tier", default=os.environ.get("VERIF_TIER", "quick"), choices=["quick", "thorough"])
    ap.add_argument("--replay")
    a = ap.parse_args()
    if a.replay:
        sys.exit(do_replay(a.replay))
    pid = a.pid
    if pid not in P.PROPS:
        print(f"unknown or unclaimed property {pid}", file=sys.stderr)
        sys.exit(2)
    seed = int(os.environ.get("VERIF_SEED", "0") or 0)
    t0 = time.time()
    cfg = P.PROPS[pid]
    known = load_known()
    violations = []     # dict(key, text, replay payload)
    undecided = []
    ev = dict(property_id=pid, tier=a.tier, seed=seed, level=cfg["level"], coverage={}, assumptions=list(cfg.get("assumptions", [])), wall_s=0.0, violations=0)
    cov = ev["coverage"]
    cov["functions_under_contract"] = []
    cov["obligation_list"] = []
    cov["trusted_base"] = list(cfg.get("trusted", []))
    cov["dropped_by_dialect"] = list(cfg.get("dropped", []))
    n_ob = n_dis = 0
    cmds = []
    verus_ms = 0
    # For a property decided by the bounded tier (level != proof) the Verus worlds are an auxiliary "small proved part":
    # a function of it that leaves the dialect on this tree loses its proof, which is recorded and printed, but the verdict
    # then rests on the bounded tier alone (exit 0 if that holds).  For a proof-level property the same event is exit 2.
    aux = cfg["level"] != "proof"
    aux_lost = []

    # ---------------------------------------------------------------- deductive part (Verus)
    for wname in cfg.get("worlds", []):
        w = verus_run.run_world(wname, repo=REPO, tier=a.tier, seed=seed)
        cmds.append(w["verus"].get("cmd", f"verus {wname}_world.rs"))
        verus_ms += w["verus"].get("total_ms_all_runs") or 0
        if w["reason"]:
            (aux_lost if aux else undecided).append(f"{wname}: {w['reason']}")
            continue
        tagged_fns = set()
        for f in w["functions"]:
            if f.get("kind") == "fn" and (pid in f.get("tags", []) or pid in f.get("safety_tags", []) or any(pid in t for t in f.get("clause_tags", {}).values())):
                tagged_fns.add(f["id"])
                cov["functions_under_contract"].append(dict(id=f["id"], file=f["file"], lines=[f["line"], f["end_line"]], token_hash=f["hash"], dialect_rules=f["rules"], reading=f["reading"]))
        for o in w["obligations"]:
            if pid in o["tags"]:
                if aux and o["status"] == "undecided":
                    aux_lost.append(f"{wname}: obligation {o['id']} not decided on this tree")
                    continue
                n_ob += 1
                if o["status"] == "discharged":
                    n_dis += 1
                cov["obligation_list"].append(dict(id=o["id"], status=o["status"], backend="verus/z3"))
        for v in w["violations"]:
            if pid in v["tags"]:
                violations.append(dict(key=v["obligation"], world=wname, fn=v["fn"], text=v["rendered"], msg=v["msg"]))
        for u in w["undecided"]:
            if u.get("fn") is None or u.get("fn") in tagged_fns:
                (aux_lost if aux else undecided).append(f"{wname}: {u.get('msg')} ({u.get('reason')}) {u.get('fn') or ''}")
        cov.setdefault("vacuity_guard", {})[wname] = w["canaries"]
        for t in w["trusted"]:
            if t not in cov["trusted_base"]:
                cov["trusted_base"].append(t)
        cov.setdefault("verus_runs", []).append(w["verus"])

    # ---------------------------------------------------------------- mechanical program-text scans
    for sname in cfg.get("scans", []):
        r = scans.run(sname, REPO)
        cov.setdefault("scans", []).append(dict(name=sname, **{k: r[k] for k in ("checked", "detail")}))
        n_ob += 1
        if r["status"] == "ok":
            n_dis += 1
            cov["obligation_list"].append(dict(id=f"scan.{sname}", status="discharged", backend="program-text scan"))
        elif r["status"] == "violation":
            cov["obligation_list"].append(dict(id=f"scan.{sname}", status="failed", backend="program-text scan"))
            violations.append(dict(key=f"scan.{sname}", world=None, fn=None, text=r["detail"], msg="program-text obligation failed", scan=True))
        else:
            undecided.append(f"scan {sname}: {r['detail']}")

    # ---------------------------------------------------------------- bounded stand-ins (Kani / native driver)
    _open = [k for k in known.get("findings", []) if k.get("status") == "open" and k["property"] == pid]
    cfg = dict(cfg, _known_keys=[k["key"] for k in _open], _known={k["key"]: k["what"] for k in _open})
    b = bounded.run(pid, cfg, a.tier, seed, REPO)
    for kf in dict.fromkeys(b.get("known_hits", [])):
        print(f"KNOWN-FINDING: property={pid} {kf}")
    cov["bounded"] = b["report"]
    for v in b["violations"]:
        violations.append(v)
    undecided += b["undecided"]
    cmds += b["cmds"]

    # ---------------------------------------------------------------- verdicts
    reported = 0
    # one report per obligation / marker; prefer the entry that carries a failing input
    dedup = {}
    for v in violations:
        if v["key"] not in dedup or (v.get("kind") == "input" and dedup[v["key"]].get("kind") != "input"):
            dedup[v["key"]] = v
    violations = list(dedup.values())
    for v in violations:
        k = known_match(known, pid, v["key"])
        if k:
            print(f"KNOWN-FINDING: property={pid} {k['what']}")
            continue
        payload = dict(property=pid, key=v["key"], world=v.get("world"), verifier_output=v.get("text"), msg=v.get("msg"))
        suffix = ""
        if v.get("kind") in ("input", "driver"):
            payload.update(kind=v["kind"], harness=v.get("harness"), inputs=v.get("inputs"), native=v.get("native"), driver=v.get("driver"))
        else:
            found = None
            hname = v["key"].split(".", 1)[1].split("#")[0] if v["key"].startswith("bounded.") else P.cex_for(v["key"])
            if hname:
                found = cex.search(hname, seed)
            if found and found.get("found"):
                rp = cex.replay(hname, found["inputs"])
                payload.update(kind="input", harness=hname, inputs=found["inputs"], search=found, native=rp)
            elif any(v["key"].startswith(fr) for fr in P.FRAGILE):
                # D17: proof by bit-vector lemmas, no failing input in the harness's exhaustive enumeration: not a verdict
                undecided.append(f"{v.get('world')}: obligation {v['key']} failed to verify but the native search of {hname} found no failing input; "
                                 "the proof of this clause rests on bit-vector lemmas that an equivalent rewrite can defeat (rule D17) — undecided")
                continue
            else:
                payload.update(kind="obligation", search=found)
                suffix = " no-failing-input-found"
        path = write_replay(pid, v["key"], payload)
        print(f"failed obligation: {v['key']}")
        if v.get("text"):
            print(v["text"].rstrip())
        if payload.get("kind") == "input":
            print(f"failing input for {payload['harness']}: {payload['inputs']}")
            for x in payload.get("native") or []:
                print(f"  native replay [{x['profile']}] rc={x['rc']}: {x['output'].strip()[:300]}")
        print(f"VIOLATION property={pid} replay={path}{suffix}")
        reported += 1

    ev["violations"] = reported
    ev["wall_s"] = round(time.time() - t0, 2)
    cov["obligations"] = n_ob
    cov["discharged"] = n_dis
    cov["checker_cmd"] = " ; ".join(dict.fromkeys(cmds)) or "n/a"
    cov["solver_time_ms"] = verus_ms
    cov["undecided"] = undecided
    cov["proof_part_not_decided"] = aux_lost
    bd = cov["bounded"]
    cov["evaluations"] = bd.get("evaluations", 0) + n_ob
    cov["distinct_nontrivial"] = bd.get("distinct_nontrivial", 0) + n_dis
    cov["rule"] = ("proof part: one case per named obligation (contract clause or per-function safety bundle), non-trivial = discharged by the verifier; "
                   "bounded part: " + bd.get("rule", "none"))
    cov["samples"] = ([o["id"] for o in cov["obligation_list"][:6]] + bd.get("samples", [])[:6]) or ["none"]
    cov["explanation"] = cfg.get("explanation", "")
    os.makedirs(EVID, exist_ok=True)
    with open(os.path.join(EVID, f"{pid}.json"), "w") as f:
        json.dump(ev, f, indent=1)

    import shutil
    shutil.rmtree(verus_run.BUILD, ignore_errors=True)
    if reported:
        sys.exit(1)
    if undecided:
        for u in undecided:
            print(f"UNDECIDED: {u}")
        sys.exit(2)
    for u in aux_lost:
        print(f"NOTE: auxiliary proof part lost on this tree, the bounded tier alone decides {pid}: {u}")
    print(f"{pid}: held — {n_dis}/{n_ob} obligations discharged; bounded: {bd.get('summary', 'none')}; {ev['wall_s']}s")
    sys.exit(0)


if __name__ == "__main__":
    main()
