#!/usr/bin/env python3
"""Writes MANIFEST.json from vf/props.py (single source of truth for what is claimed)."""
import json, os, sys
HERE = os.path.dirname(os.path.abspath(__file__))
sys.path.insert(0, os.path.join(HERE, "vf"))
import props as P
import manifest_text as T

ALL = [f"C{n:02d}" for n in range(1, 21)]
checks = []
for pid in ALL:
    if pid not in P.PROPS:
        continue
    t = T.TEXT[pid]
    checks.append(dict(
        property_id=pid,
        quick_cmd=f"./check.py {pid} --tier quick",
        thorough_cmd=f"./check.py {pid} --tier thorough",
        evidence_file=f"/verif/evidence/{pid}.json",
        replay_cmd_template="./check.py --replay {path}",
        engine="verus+kani",
        level_claimed=dict(category=P.PROPS[pid]["level"], text=t["level"], design_ref=t["ref"]),
        level_note=t["note"],
        technique=t["technique"],
    ))
m = dict(
    version=1,
    setup_cmd="./setup.sh",
    hooks=dict(guard="(none)", enable="no hooks: the checks read /repo/src textually (Verus world) and link /repo as a path dependency (Kani / native drivers)",
               baseline_off_cmd="cd /repo && cargo test --workspace --no-fail-fast --offline", source_commits=[], add_only=True),
    engines=[
        dict(name="verus-world", path="/verif/vf", serves_properties=[p for p in ALL if p in P.PROPS and P.PROPS[p].get("worlds")],
             kind_free_text="contract-based deductive verification: functions extracted mechanically from /repo/src on every run, contracts injected, Verus 0.2026.09.13 discharges every obligation"),
        dict(name="kani-harness", path="/verif/kani", serves_properties=[p for p in ALL if p in P.PROPS and P.PROPS[p].get("kani")],
             kind_free_text="bounded stand-in (Kani/CBMC on the real crate) for bodies outside the Verus dialect; native replay of counterexamples"),
        dict(name="native-driver", path="/verif/kani/src/bin", serves_properties=[p for p in ALL if p in P.PROPS and P.PROPS[p].get("drivers")],
             kind_free_text="bounded-exhaustive native driver for the BTreeMap-based codecs (stand-in, labelled bounded) and boundary-alphabet counterexample search"),
    ],
    checks=checks,
    notes="Fix commits in /repo are listed in known_findings.json as `fixed`. Exit 2 of a check means undecided (lost anchor, dialect, resource limit), never an alarm.",
    not_applicable=[dict(property_id=p, reason=T.NA[p]) for p in ALL if p not in P.PROPS],
)
json.dump(m, open(os.path.join(HERE, "MANIFEST.json"), "w"), indent=1)
print(len(checks), "checks,", len(m["not_applicable"]), "not applicable")

# human-readable companion of known_findings.json (the checks read the JSON)
kf = json.load(open(os.path.join(HERE, "known_findings.json")))
with open(os.path.join(HERE, "known_findings.txt"), "w") as f:
    f.write("# generated from known_findings.json by gen_manifest.py; `fixed:` entries suppress nothing\n")
    for k in kf["findings"]:
        if k["status"] == "fixed":
            f.write(k.get("line") or f"fixed: property={k['property']} {k.get('commit','')} {k['what']}")
        else:
            f.write(f"open: property={k['property']} key={k['key']} {k['what']}")
        f.write("\n")
