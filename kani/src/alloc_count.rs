//! A counting global allocator (installed by the `replay` binary) so that harnesses can observe allocator calls (C17).
use std::alloc::{GlobalAlloc, Layout, System};
use std::sync::atomic::{AtomicUsize, Ordering};

pub struct Counting;

static CALLS: AtomicUsize = AtomicUsize::new(0);

unsafe impl GlobalAlloc for Counting {
    unsafe fn alloc(&self, l: Layout) -> *mut u8 {
        CALLS.fetch_add(1, Ordering::Relaxed);
        System.alloc(l)
    }
    unsafe fn dealloc(&self, p: *mut u8, l: Layout) {
        System.dealloc(p, l)
    }
    unsafe fn realloc(&self, p: *mut u8, l: Layout, n: usize) -> *mut u8 {
        CALLS.fetch_add(1, Ordering::Relaxed);
        System.realloc(p, l, n)
    }
    unsafe fn alloc_zeroed(&self, l: Layout) -> *mut u8 {
        CALLS.fetch_add(1, Ordering::Relaxed);
        System.alloc_zeroed(l)
    }
}

/// Allocator calls (alloc / realloc / alloc_zeroed) so far.
pub fn calls() -> usize {
    CALLS.load(Ordering::Relaxed)
}
