//! Native replay / bounded-exhaustive search of harness bodies on concrete inputs against the real crate.
//!
//!   replay run <harness> <u64 args...>     exit 0 = property held, 1 = violated (marker assertion or forbidden panic),
//!                                          3 = harness precondition not met, 2 = unknown harness
//!   replay search <harness> [seed]         enumerate the per-argument domains (exhaustively when the product is small,
//!                                          otherwise seeded random sampling); prints the first violating input as
//!                                          `FOUND <harness> <args...>`; exit 1 if found, 0 if not
//!   replay list                            one line per registered harness
use std::panic;

#[global_allocator]
static ALLOC: vk::alloc_count::Counting = vk::alloc_count::Counting;

fn outcome(h: &vk::H, v: &[u64]) -> Result<(), String> {
    let run = h.run;
    let vv = v.to_vec();
    vk::section("");
    match panic::catch_unwind(move || run(&vv)) {
        Ok(()) => Ok(()),
        Err(e) => {
            let msg = e.downcast_ref::<String>().cloned().or_else(|| e.downcast_ref::<&str>().map(|s| s.to_string())).unwrap_or_default();
            if !msg.starts_with("VF:") && h.panic_ok {
                // fail-stop behaviour of the code under test, not a verdict
                return Ok(());
            }
            let sec = vk::current_section();
            if !msg.starts_with("VF:") && sec.starts_with("VF:") {
                return Err(format!("{sec}.panic: {msg}"));
            }
            Err(msg)
        }
    }
}

fn main() {
    let args: Vec<String> = std::env::args().skip(1).collect();
    if args.is_empty() {
        eprintln!("usage: replay run|search|list <harness> <args...>");
        std::process::exit(2);
    }
    if args[0] == "list" {
        for h in vk::registry() {
            println!("{}\t{}\t{}\tkani={}\tpanic_ok={}\t{}", h.name, h.props.join(","), h.nargs, h.kani, h.panic_ok, h.bound);
        }
        return;
    }
    if args.len() < 2 {
        std::process::exit(2);
    }
    let h = match vk::find(&args[1]) {
        Some(h) => h,
        None => {
            println!("unknown harness {}", args[1]);
            std::process::exit(2);
        }
    };
    match args[0].as_str() {
        "run" => {
            let v: Vec<u64> = args[2..].iter().map(|a| a.parse::<u64>().expect("numeric argument")).collect();
            if v.len() != h.nargs {
                println!("REPLAY: wrong arity");
                std::process::exit(2);
            }
            if !(h.pre)(&v) {
                println!("REPLAY: precondition of the harness not met");
                std::process::exit(3);
            }
            match outcome(&h, &v) {
                Ok(()) => println!("REPLAY: property held on this input"),
                Err(msg) => {
                    println!("REPLAY: VIOLATED: {msg}");
                    std::process::exit(1);
                }
            }
        }
        "search" => {
            let seed: u64 = args.get(2).and_then(|s| s.parse().ok()).unwrap_or(0);
            let doms = (h.doms)();
            panic::set_hook(Box::new(|_| {}));
            let total: u128 = doms.iter().map(|d| d.len() as u128).product();
            let mut tried: u64 = 0;
            let mut first: Option<String> = None;
            // failures whose message is listed as a known finding are counted, not reported (so that a different
            // violation of the same property is still found)
            let known: Vec<String> = std::env::var("VK_KNOWN").unwrap_or_default().split('|').filter(|s| !s.is_empty()).map(|s| s.to_string()).collect();
            let mut known_hits: u64 = 0;
            // marker prefixes that do not concern the property being checked (a harness may serve several properties)
            let ignore: Vec<String> = std::env::var("VK_IGNORE").unwrap_or_default().split('|').filter(|s| !s.is_empty()).map(|s| s.to_string()).collect();
            let only: Vec<String> = std::env::var("VK_ONLY").unwrap_or_default().split('|').filter(|s| !s.is_empty()).map(|s| s.to_string()).collect();
            let mut check = |v: &[u64]| -> bool {
                if !(h.pre)(v) {
                    return false;
                }
                tried += 1;
                if first.is_none() {
                    first = Some(v.iter().map(|x| x.to_string()).collect::<Vec<_>>().join(" "));
                }
                if let Err(msg) = outcome(&h, v) {
                    // longest matching prefix decides
                    let ig = ignore.iter().filter(|k| msg.starts_with(k.as_str())).map(|k| k.len()).max();
                    let on = only.iter().filter(|k| msg.starts_with(k.as_str())).map(|k| k.len()).max();
                    if let Some(i) = ig {
                        if on.map_or(true, |o| o < i) {
                            return false;
                        }
                    }
                    if known.iter().any(|k| msg.starts_with(k.as_str())) {
                        if known_hits == 0 {
                            println!("KNOWNHIT {} {} :: {}", h.name, v.iter().map(|x| x.to_string()).collect::<Vec<_>>().join(" "), msg);
                        }
                        known_hits += 1;
                        return false;
                    }
                    println!("FOUND {} {}", h.name, v.iter().map(|x| x.to_string()).collect::<Vec<_>>().join(" "));
                    println!("MESSAGE {msg}");
                    return true;
                }
                false
            };
            let mut found = false;
            let exhaustive = total <= 4_000_000;
            if exhaustive {
                let mut idx = vec![0usize; doms.len()];
                'outer: loop {
                    let v: Vec<u64> = idx.iter().zip(&doms).map(|(i, d)| d[*i]).collect();
                    if check(&v) {
                        found = true;
                        break;
                    }
                    let mut k = 0;
                    loop {
                        if k == idx.len() {
                            break 'outer;
                        }
                        idx[k] += 1;
                        if idx[k] < doms[k].len() {
                            break;
                        }
                        idx[k] = 0;
                        k += 1;
                    }
                }
            } else {
                let mut s = seed.wrapping_mul(6364136223846793005).wrapping_add(1442695040888963407) | 1;
                let samples: u64 = std::env::var("VK_SAMPLES").ok().and_then(|s| s.parse().ok()).unwrap_or(400_000);
                for _ in 0..samples {
                    let v: Vec<u64> = doms
                        .iter()
                        .map(|d| {
                            s ^= s << 13;
                            s ^= s >> 7;
                            s ^= s << 17;
                            d[(s % d.len() as u64) as usize]
                        })
                        .collect();
                    if check(&v) {
                        found = true;
                        break;
                    }
                }
            }
            println!("SEARCHED {tried} inputs satisfying the precondition (domain product {total}, exhaustive={exhaustive})");
            if let Some(f) = first {
                println!("SAMPLE {} {}", h.name, f);
            }
            std::process::exit(if found { 1 } else { 0 });
        }
        "survey" => {
            // triage aid: enumerate everything, group failures by message
            let doms = (h.doms)();
            panic::set_hook(Box::new(|_| {}));
            let mut groups: std::collections::BTreeMap<String, (u64, String)> = Default::default();
            let mut idx = vec![0usize; doms.len()];
            let mut tried = 0u64;
            'outer: loop {
                let v: Vec<u64> = idx.iter().zip(&doms).map(|(i, d)| d[*i]).collect();
                if (h.pre)(&v) {
                    tried += 1;
                    if let Err(msg) = outcome(&h, &v) {
                        let e = groups.entry(msg).or_insert((0, v.iter().map(|x| x.to_string()).collect::<Vec<_>>().join(" ")));
                        e.0 += 1;
                    }
                }
                let mut k = 0;
                loop {
                    if k == idx.len() {
                        break 'outer;
                    }
                    idx[k] += 1;
                    if idx[k] < doms[k].len() {
                        break;
                    }
                    idx[k] = 0;
                    k += 1;
                }
            }
            println!("SURVEYED {tried}");
            for (m, (n, first)) in groups {
                println!("{n}\t{m}\tfirst: {first}");
            }
        }
        _ => std::process::exit(2),
    }
}
