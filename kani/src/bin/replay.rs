//! Native replay / search of harness bodies on concrete inputs against the real crate.
//!
//!   replay run <harness> <u64 args...>     exit 0 = property held, 1 = violated (marker assertion or panic),
//!                                          3 = harness precondition not met
//!   replay search <harness> [seed]         enumerate the boundary alphabet of every argument (exhaustively when the
//!                                          product is small, otherwise seeded random sampling) and print the first
//!                                          violating input as `FOUND <harness> <args...>`; exit 1 if found, 0 if not
use std::panic;

fn outcome(name: &str, v: &[u64]) -> Result<bool, String> {
    let n = name.to_string();
    let vv = v.to_vec();
    match panic::catch_unwind(move || vk::dispatch(&n, &vv)) {
        Ok(b) => Ok(b),
        Err(e) => {
            let msg = e.downcast_ref::<String>().cloned().or_else(|| e.downcast_ref::<&str>().map(|s| s.to_string())).unwrap_or_default();
            if !msg.starts_with("VF:") && vk::panic_allowed(name) {
                // fail-stop behaviour of the code under test, not a verdict
                return Ok(true);
            }
            Err(msg)
        }
    }
}

fn main() {
    let args: Vec<String> = std::env::args().skip(1).collect();
    if args.len() < 2 {
        eprintln!("usage: replay run|search <harness> <args...>");
        std::process::exit(2);
    }
    let name = args[1].clone();
    match args[0].as_str() {
        "run" => {
            let v: Vec<u64> = args[2..].iter().map(|a| a.parse::<u64>().expect("numeric argument")).collect();
            match outcome(&name, &v) {
                Ok(true) => println!("REPLAY: property held on this input"),
                Ok(false) => {
                    println!("REPLAY: unknown harness or wrong arity");
                    std::process::exit(2);
                }
                Err(msg) => {
                    println!("REPLAY: VIOLATED: {msg}");
                    std::process::exit(1);
                }
            }
        }
        "search" => {
            let seed: u64 = args.get(2).and_then(|s| s.parse().ok()).unwrap_or(0);
            let doms = match vk::domains(&name) {
                Some(d) => d,
                None => {
                    println!("SEARCH: unknown harness");
                    std::process::exit(2);
                }
            };
            panic::set_hook(Box::new(|_| {}));
            let total: u128 = doms.iter().map(|d| d.len() as u128).product();
            let mut tried: u64 = 0;
            let mut check = |v: &[u64]| -> bool {
                // preconditions are filtered by `vk::pre`
                if !vk::pre(&name, v) {
                    return false;
                }
                tried += 1;
                if let Err(msg) = outcome(&name, v) {
                    println!("FOUND {} {}", name, v.iter().map(|x| x.to_string()).collect::<Vec<_>>().join(" "));
                    println!("MESSAGE {msg}");
                    return true;
                }
                false
            };
            let mut found = false;
            if total <= 3_000_000 {
                let mut idx = vec![0usize; doms.len()];
                'outer: loop {
                    let v: Vec<u64> = idx.iter().zip(&doms).map(|(i, d)| d[*i]).collect();
                    if check(&v) {
                        found = true;
                        break;
                    }
                    let mut k = 0;
                    loop {
                        if k == idx.len() {
                            break 'outer;
                        }
                        idx[k] += 1;
                        if idx[k] < doms[k].len() {
                            break;
                        }
                        idx[k] = 0;
                        k += 1;
                    }
                }
            } else {
                let mut s = seed.wrapping_mul(6364136223846793005).wrapping_add(1442695040888963407);
                for _ in 0..2_000_000u64 {
                    let v: Vec<u64> = doms
                        .iter()
                        .map(|d| {
                            s ^= s << 13;
                            s ^= s >> 7;
                            s ^= s << 17;
                            d[(s % d.len() as u64) as usize]
                        })
                        .collect();
                    if check(&v) {
                        found = true;
                        break;
                    }
                }
            }
            println!("SEARCHED {tried} inputs satisfying the precondition (domain product {total})");
            std::process::exit(if found { 1 } else { 0 });
        }
        _ => std::process::exit(2),
    }
}
