//! Native bounded-exhaustive drivers for the two `BTreeMap`-based codecs (Kani cannot execute `BTreeMap`):
//! HuffmanContainer (C06) and CodecRegion<DictionaryCodec> (C07).  Stand-ins, labelled bounded.
use crate::util::*;
use crate::H;
use flatcontainer::impls::codec::{CodecRegion, DictionaryCodec};
use flatcontainer::impls::huffman_container::HuffmanContainer;
use flatcontainer::{IntoOwned, Push, Region};
use std::panic::{catch_unwind, AssertUnwindSafe};

// =================================================================================================== Huffman (C06)

/// Frequency profiles: (symbol, count) lists.
///   0..340      all profiles over alphabets of 1..4 symbols with counts in 1..4
///   340..346    Fibonacci-skewed profiles with 10, 12, 14, 16, 18, 21 symbols (codes up to 20 bits)
///   346..349    257 / 300 / 600 equiprobable u16 symbols
pub const N_PROFILES: u64 = 349;

pub fn profile(p: u64) -> Vec<(u16, u64)> {
    if p < 340 {
        let (a, mut k) = if p < 4 {
            (1, p)
        } else if p < 20 {
            (2, p - 4)
        } else if p < 84 {
            (3, p - 20)
        } else {
            (4, p - 84)
        };
        let mut out = Vec::new();
        for s in 0..a {
            out.push((10 + 3 * s as u16, 1 + k % 4));
            k /= 4;
        }
        out
    } else if p < 346 {
        let n = [10, 12, 14, 16, 18, 21][(p - 340) as usize];
        let (mut a, mut b) = (1u64, 1u64);
        let mut out = Vec::new();
        for s in 0..n {
            out.push((100 + s as u16, a));
            let c = a + b;
            a = b;
            b = c;
        }
        out
    } else {
        let n = [257, 300, 600][(p - 346) as usize];
        (0..n).map(|s| (1000 + s as u16, 1)).collect()
    }
}

/// Cost (sum of count * code length) of an optimal prefix code with every length >= 1, by the textbook algorithm.
fn reference_cost(counts: &[u64]) -> u64 {
    if counts.len() == 1 {
        return counts[0];
    }
    let mut heap: std::collections::BinaryHeap<std::cmp::Reverse<u64>> = counts.iter().map(|c| std::cmp::Reverse(*c)).collect();
    let mut cost = 0;
    while heap.len() > 1 {
        let a = heap.pop().unwrap().0;
        let b = heap.pop().unwrap().0;
        cost += a + b;
        heap.push(std::cmp::Reverse(a + b));
    }
    cost
}

/// Items over the alphabet, chosen to cover every start/end bit offset and items spanning 0, 1, 2+ whole bytes.
fn item(sel: u64, alpha: &[u16]) -> Vec<u16> {
    let a = alpha.len();
    let s = |i: usize| alpha[i % a];
    match sel {
        0 => vec![],
        1 => vec![s(0)],
        2 => vec![s(a - 1)],
        3 => vec![s(0), s(1)],
        4 => vec![s(1), s(0), s(2)],
        5 => vec![s(0); 8],
        6 => vec![s(a - 1); 3],
        7 => (0..9).map(|i| s(i)).collect(),
        8 => (0..17).map(|i| s(i * 7 + 1)).collect(),
        9 => vec![s(2), s(2)],
        10 => (0..5).map(|i| s(a - 1 - (i % a))).collect(),
        _ => (0..24).map(|i| s(i / 3)).collect(),
    }
}
pub const N_ITEMS: u64 = 12;

fn train(prof: &[(u16, u64)]) -> HuffmanContainer<u16> {
    let mut t = HuffmanContainer::<u16>::default();
    // raw mode: round trips everything; stats count every pushed symbol
    let mut all = Vec::new();
    for (s, c) in prof {
        for _ in 0..*c {
            all.push(*s);
        }
    }
    let i = t.push(all.as_slice());
    vassert!(t.index(i).into_owned() == all, "VF:huffman.raw_roundtrip");
    let e = t.push(&[][..]);
    vassert!(t.index(e).into_owned().is_empty(), "VF:huffman.raw_roundtrip_empty");
    t
}

// args: p (profile), s0 s1 s2 (item selectors), gen (0: one generation, 1: two generations), outsider (0/1: also try a symbol outside the statistics)
fn pre_huff(v: &[u64]) -> bool {
    v[0] < N_PROFILES && v[1] < N_ITEMS && v[2] < N_ITEMS && v[3] < N_ITEMS && v[4] < 4 && v[5] < 2 && (v[4] < 2 || (v[2] == v[1] && v[3] == 0))
}
fn doms_huff() -> Vec<Vec<u64>> {
    vec![range(N_PROFILES), range(N_ITEMS), range(N_ITEMS), vec![0, 5, 8], range(4), range(2)]
}
fn doms_huff_quick() -> Vec<Vec<u64>> {
    // one profile per alphabet size / shape, all item pairs
    vec![vec![0, 3, 4, 9, 19, 20, 41, 83, 84, 170, 339, 340, 343, 345, 346, 348], range(N_ITEMS), range(N_ITEMS), vec![0, 5], range(4), range(2)]
}
fn run_huff(v: &[u64]) {
    let prof = profile(v[0]);
    let alpha: Vec<u16> = prof.iter().map(|x| x.0).collect();
    let t = train(&prof);
    // a code book built from no statistics at all (no source regions, or only empty ones) still stores and returns the
    // empty item (the only one it can accept)
    if v[1] == 0 && v[2] == 0 {
        crate::section("VF:huffman.empty_code_book");
        let none: [&HuffmanContainer<u16>; 0] = [];
        let empty = HuffmanContainer::<u16>::default();
        for mut z in [HuffmanContainer::merge_regions(none.into_iter()), HuffmanContainer::merge_regions(std::iter::once(&empty)), HuffmanContainer::merge_regions([&empty, &empty].into_iter())] {
            let i0 = z.push(&[][..]);
            let i1 = z.push(Vec::<u16>::new());
            vassert!(i0 == (0, 0) && i1 == (0, 0), "VF:huffman.empty_code_book.index");
            vassert!(z.index(i0).into_owned().is_empty() && z.index(i1).into_owned().is_empty() && z.index(i0) == z.index(i1), "VF:huffman.empty_code_book.read");
            z.clear();
            let j = z.push([alpha[0]].as_slice());
            vassert!(z.index(j).into_owned() == [alpha[0]], "VF:huffman.after_clear_not_raw");
        }
    }
    // a coded container that has not received a symbol yet must fall back to raw storage on clear, like any other
    {
        crate::section("VF:huffman.after_clear_not_raw");
        let mut c0 = HuffmanContainer::merge_regions(std::iter::once(&t));
        c0.clear();
        let any = [7u16, 9, alpha[0]];
        let i = c0.push(any.as_slice());
        vassert!(i == (0, 3) && c0.index(i).into_owned() == any, "VF:huffman.after_clear_not_raw");
        let mut c1 = HuffmanContainer::merge_regions(std::iter::once(&t));
        let _ = c1.push(&[][..]);
        c1.clear();
        let i = c1.push(any.as_slice());
        vassert!(i == (0, 3) && c1.index(i).into_owned() == any, "VF:huffman.after_clear_not_raw");
    }
    crate::section("VF:huffman.read_differs_from_pushed");
    // statistics the code must be optimal for (the sum over all source regions)
    let mut prof = prof;
    let mut c = match v[4] {
        2 => {
            // two sources over the same alphabet with different count shapes (the second has the counts reversed)
            let rev: Vec<(u16, u64)> = prof.iter().zip(prof.iter().rev()).map(|(a, b)| (a.0, b.1 + 2 * (a.0 as u64 % 3))).collect();
            let t2 = train(&rev);
            for (a, b) in prof.iter_mut().zip(rev.iter()) {
                a.1 += b.1;
            }
            HuffmanContainer::merge_regions([&t, &t2].into_iter())
        }
        3 => {
            // three sources: raw with items, raw empty, coded with items
            let empty = HuffmanContainer::<u16>::default();
            let mut coded = HuffmanContainer::merge_regions(std::iter::once(&t));
            let skew: Vec<u16> = alpha.iter().take(2).flat_map(|s| [*s, *s, *s]).collect();
            let _ = coded.push(skew.as_slice());
            for a in prof.iter_mut() {
                a.1 += skew.iter().filter(|s| **s == a.0).count() as u64;
            }
            HuffmanContainer::merge_regions([&t, &empty, &coded].into_iter())
        }
        _ => HuffmanContainer::merge_regions(std::iter::once(&t)),
    };
    if v[4] == 1 {
        // second generation: statistics now come from what was pushed into the coded container
        let mut all = Vec::new();
        for (s, n) in &prof {
            for _ in 0..*n {
                all.push(*s);
            }
        }
        let _ = c.push(all.as_slice());
        c = HuffmanContainer::merge_regions([&c].into_iter());
    }
    // per-symbol code lengths, observed as the bits a one-symbol item occupies
    let mut lens = std::collections::BTreeMap::new();
    let mut cursor = 0usize;
    let mut issued: Vec<((usize, usize), Vec<u16>)> = Vec::new();
    for s in &alpha {
        let idx = c.push([*s].as_slice());
        vassert!(idx.0 == cursor && idx.1 >= idx.0, "VF:huffman.index_not_contiguous");
        cursor = idx.1;
        lens.insert(*s, idx.1 - idx.0);
        issued.push((idx, vec![*s]));
        if alpha.len() > 40 && lens.len() >= 40 {
            break; // large alphabets: 40 probes are enough for the alignment sweep; optimality is checked below on all
        }
    }
    if alpha.len() <= 40 {
        vassert!(lens.values().all(|l| *l >= 1), "VF:huffman.code_length_zero");
        let total: u64 = prof.iter().map(|(s, n)| n * lens[s] as u64).sum();
        let counts: Vec<u64> = prof.iter().map(|x| x.1).collect();
        vassert!(total == reference_cost(&counts), "VF:huffman.code_not_optimal");
    }
    for sel in [v[1], v[2], v[3]] {
        let it = item(sel, &alpha);
        let idx = c.push(it.as_slice());
        vassert!(idx.0 == cursor, "VF:huffman.index_not_contiguous");
        cursor = idx.1;
        if it.iter().all(|s| lens.contains_key(s)) {
            let want: usize = it.iter().map(|s| lens[s]).sum();
            vassert!(idx.1 - idx.0 == want, "VF:huffman.item_bits_not_sum_of_code_lengths");
        }
        issued.push((idx, it));
        // every issued index reads back exactly, after every push (shared partial bytes!)
        for (i, want) in &issued {
            let got = c.index(*i).into_owned();
            vassert!(&got == want, "VF:huffman.read_differs_from_pushed");
        }
        // the other owned conversion of the newest item, into an empty buffer and into one that is one symbol short
        {
            let (i, want) = issued.last().unwrap();
            let mut t0: Vec<u16> = Vec::new();
            c.index(*i).clone_onto(&mut t0);
            let mut t1: Vec<u16> = vec![9; want.len().saturating_sub(1)];
            c.index(*i).clone_onto(&mut t1);
            vassert!(&t0 == want && &t1 == want, "VF:huffman.clone_onto_differs_from_pushed");
        }
    }
    if v[5] == 1 {
        let before = issued.clone();
        let r = catch_unwind(AssertUnwindSafe(|| {
            let mut c2 = c.clone();
            let idx = c2.push([7u16, alpha[0]].as_slice());
            c2.index(idx).into_owned()
        }));
        if let Ok(got) = r {
            vassert!(got == vec![7u16, alpha[0]], "VF:huffman.outsider_stored_as_something_else");
        }
        for (i, want) in &before {
            vassert!(&c.index(*i).into_owned() == want, "VF:huffman.read_differs_from_pushed");
        }
    }
    // clear falls back to raw storage and round-trips everything
    crate::section("VF:huffman.after_clear_not_raw");
    c.clear();
    let any = [7u16, 9, alpha[0]];
    let i = c.push(any.as_slice());
    vassert!(c.index(i).into_owned() == any && i == (0, 3), "VF:huffman.after_clear_not_raw");
}

// C14 / C15 for Wrapped: raw versus encoded representations
// args: p (small profile), sa sb (item selectors), ta (prior clone_onto target selector)
fn pre_wrapped(v: &[u64]) -> bool {
    v[0] < 346 && v[1] < N_ITEMS && v[2] < N_ITEMS && v[3] < 4
}
fn doms_wrapped() -> Vec<Vec<u64>> {
    vec![vec![4, 9, 20, 41, 84, 170, 339, 340, 343], range(N_ITEMS), range(N_ITEMS), range(4)]
}
fn run_wrapped(v: &[u64]) {
    let prof = profile(v[0]);
    let alpha: Vec<u16> = prof.iter().map(|x| x.0).collect();
    let t = train(&prof);
    let mut enc = HuffmanContainer::merge_regions(std::iter::once(&t));
    let mut raw = HuffmanContainer::<u16>::default();
    let (a, b) = (item(v[1], &alpha), item(v[2], &alpha));
    let _ = enc.push([alpha[0]].as_slice());
    let (ea, eb) = (enc.push(a.as_slice()), enc.push(b.as_slice()));
    let (ra, rb) = (raw.push(a.as_slice()), raw.push(b.as_slice()));
    // a second coded container with a different code book over the same alphabet (skewed the other way)
    let skew: Vec<(u16, u64)> = prof.iter().enumerate().map(|(i, x)| (x.0, 1 + 7 * (i as u64 % 2) + 13 * (i as u64 / (alpha.len() as u64 / 2 + 1)))).collect();
    let mut other = HuffmanContainer::merge_regions(std::iter::once(&train(&skew)));
    let (oa, ob) = (other.push(a.as_slice()), other.push(b.as_slice()));
    for (x, y) in [(enc.index(ea), enc.index(eb)), (enc.index(ea), raw.index(rb)), (raw.index(ra), enc.index(eb)), (raw.index(ra), raw.index(rb)),
                   (enc.index(ea), other.index(ob)), (other.index(oa), enc.index(eb)), (other.index(oa), other.index(ob)), (other.index(oa), raw.index(rb))] {
        vassert!((x == y) == (a == b), "VF:wrapped.eq");
        vassert!(x.partial_cmp(&y) == a.partial_cmp(&b), "VF:wrapped.partial_cmp");
        vassert!(x.cmp(&y) == a.cmp(&b), "VF:wrapped.cmp");
        vassert!((x < y) == (a < b) && (x <= y) == (a <= b) && (x > y) == (a > b) && (x >= y) == (a >= b) && (x != y) == (a != b), "VF:wrapped.operators");
        vassert!(x.cmp(&y) == y.cmp(&x).reverse(), "VF:wrapped.antisymmetric");
    }
    vassert!(enc.index(ea) == raw.index(ra) && enc.index(ea) == enc.index(ea) && enc.index(ea) == other.index(oa) && other.index(oa) == raw.index(ra), "VF:wrapped.representations_equal");
    // IntoOwned laws
    for x in [enc.index(ea), raw.index(ra)] {
        vassert!(x.into_owned() == a, "VF:wrapped.into_owned");
        let mut t: Vec<u16> = match v[3] {
            0 => vec![],
            1 => vec![1],
            2 => vec![1; 30],
            _ => a.clone(),
        };
        x.clone_onto(&mut t);
        vassert!(t == a, "VF:wrapped.clone_onto");
        let o = x.into_owned();
        let back = <<HuffmanContainer<u16> as Region>::ReadItem<'_> as IntoOwned>::borrow_as(&o);
        vassert!(back == x, "VF:wrapped.borrow_as");
        // region-to-region push of a read item, into a coded and into a raw container
        let mut enc2 = HuffmanContainer::merge_regions(std::iter::once(&t_clone(&prof)));
        let j = enc2.push(x);
        vassert!(enc2.index(j).into_owned() == a, "VF:wrapped.region_to_region_encoded");
        // ... and the copy is a full citizen of the receiving container: the next generation built from it accepts the
        // same value (its symbols were counted)
        crate::section("VF:wrapped.region_to_region_next_generation");
        let mut g = HuffmanContainer::merge_regions(std::iter::once(&enc2));
        let jg = g.push(a.as_slice());
        vassert!(g.index(jg).into_owned() == a, "VF:wrapped.region_to_region_next_generation");
        crate::section("");
        let mut raw2 = HuffmanContainer::<u16>::default();
        let j = raw2.push(x);
        vassert!(raw2.index(j).into_owned() == a, "VF:wrapped.region_to_region_raw");
        // the copy equals the original as an item, whatever the receiving container's code book
        let mut other2 = HuffmanContainer::merge_regions(std::iter::once(&train(&skew)));
        let jo = other2.push(x);
        let je = enc2.push(x);
        vassert!(other2.index(jo) == x && x == other2.index(jo) && raw2.index(j) == x && enc2.index(je) == x, "VF:wrapped.region_to_region_eq");
    }
}
fn t_clone(prof: &[(u16, u64)]) -> HuffmanContainer<u16> {
    train(prof)
}

// C20 for HuffmanContainer: input forms
fn pre_hforms(v: &[u64]) -> bool {
    v[0] < 340 && v[1] < 2
}
fn doms_hforms() -> Vec<Vec<u64>> {
    vec![vec![4, 20, 84, 339], range(2)]
}
fn run_hforms(v: &[u64]) {
    let prof = profile(v[0]);
    let alpha: Vec<u16> = prof.iter().map(|x| x.0).collect();
    let t = train(&prof);
    let mk = || if v[1] == 0 { HuffmanContainer::merge_regions(std::iter::once(&t)) } else { HuffmanContainer::<u16>::default() };
    let arr = [alpha[0], alpha[alpha.len() - 1], alpha[0]];
    let mut canon = mk();
    let want = canon.push(arr.as_slice());
    let (mut a, mut b, mut c, mut d) = (mk(), mk(), mk(), mk());
    let ia = a.push(arr);
    let ib = b.push(&arr);
    let ic = c.push(arr.to_vec());
    let id = d.push(&arr.to_vec());
    vassert!(ia == want && ib == want && ic == want && id == want, "VF:huffman.forms.index");
    vassert!(a.index(ia).into_owned() == arr && b.index(ib).into_owned() == arr && c.index(ic).into_owned() == arr && d.index(id).into_owned() == arr, "VF:huffman.forms.read");
    // read items of another container (raw and encoded) as input form, and the hidden state a push leaves behind:
    // the next generation built from a container fed through form f must equal the one built from the canonical twin
    crate::section("VF:huffman.forms.read_item");
    let items: [Vec<u16>; 2] = [vec![alpha[0], alpha[0], alpha[0], alpha[alpha.len() - 1]], vec![alpha[alpha.len() / 2], alpha[0]]];
    let mut src_raw = HuffmanContainer::<u16>::default();
    let mut src_enc = HuffmanContainer::merge_regions(std::iter::once(&t));
    let sr: Vec<_> = items.iter().map(|x| src_raw.push(x.as_slice())).collect();
    let se: Vec<_> = items.iter().map(|x| src_enc.push(x.as_slice())).collect();
    let (mut canon2, mut from_raw, mut from_enc, mut mixed) = (mk(), mk(), mk(), mk());
    for (k, x) in items.iter().enumerate() {
        let want = canon2.push(x.as_slice());
        let i1 = from_raw.push(src_raw.index(sr[k]));
        let i2 = from_enc.push(src_enc.index(se[k]));
        let i3 = if k == 0 { mixed.push(src_enc.index(se[k])) } else { mixed.push(x.clone()) };
        vassert!(i1 == want && i2 == want && i3 == want, "VF:huffman.forms.read_item.index");
        vassert!(from_raw.index(i1).into_owned() == *x && from_enc.index(i2).into_owned() == *x && mixed.index(i3).into_owned() == *x, "VF:huffman.forms.read_item.read");
    }
    crate::section("VF:huffman.forms.next_generation");
    let cases: [(&HuffmanContainer<u16>, &HuffmanContainer<u16>, &[u16]); 7] = [
        (&from_raw, &canon2, items[0].as_slice()),
        (&from_enc, &canon2, items[0].as_slice()),
        (&mixed, &canon2, items[0].as_slice()),
        (&a, &canon, arr.as_slice()),
        (&b, &canon, arr.as_slice()),
        (&c, &canon, arr.as_slice()),
        (&d, &canon, arr.as_slice()),
    ];
    for (f, reference, probe) in cases {
        let mut gc = HuffmanContainer::merge_regions(std::iter::once(reference));
        let want = gc.push(probe);
        let mut g = HuffmanContainer::merge_regions(std::iter::once(f));
        let got = g.push(probe);
        vassert!(got == want, "VF:huffman.forms.next_generation.index");
        vassert!(g.index(got).into_owned() == probe, "VF:huffman.forms.next_generation.read");
    }
}

// =================================================================================================== Dictionary codec (C07)

type CR = CodecRegion<DictionaryCodec>;

fn used_bytes(r: &CR) -> usize {
    collect_heap(|cb| r.heap_size(cb)).iter().map(|p| p.0).sum()
}

/// Training sets.  Each returns the pushes of one source region.
fn training(t: u64) -> Vec<Vec<u8>> {
    let rep = |s: &[u8], n: usize| std::iter::repeat(s.to_vec()).take(n);
    match t {
        0 => vec![],
        1 => rep(b"abc", 8).collect(),
        2 => rep(b"abc", 6).chain(rep(b"xyz", 5)).chain(rep(b"q", 1)).collect(),
        3 => rep(b"a", 4).chain(rep(b"ab", 4)).chain(rep(b"abc", 4)).collect(),
        4 => rep(&[0], 5).chain(rep(&[0, 0], 5)).chain(rep(&[1, 2, 3], 2)).collect(),
        5 => (0..=255u8).map(|b| vec![b, b]).chain(rep(b"hot", 100)).collect(), // every first byte seen: no tag is free
        6 => (0..40u8).flat_map(|b| vec![vec![200, b]; 3]).collect(),            // many distinct strings of equal weight
        7 => rep(&[255, 255], 9).chain(rep(&[254], 3)).collect(),
        // few pushes, all distinct: every string holds 1/3 (all) of the statistics; the summary's buffer is as long as
        // it is full (a clone of it has no spare capacity)
        8 => vec![b"abc".to_vec(), b"xyz".to_vec(), b"q".to_vec()],
        9 => vec![b"solo".to_vec()],
        // the empty byte string among the source items (and dominating them)
        _ => rep(b"", 3).chain(rep(b"ab", 2)).collect(),
    }
}
pub const N_TRAIN: u64 = 11;

/// Probe strings, relative to the training set: dictionary entries, prefixes/extensions of them, strings whose first
/// byte is a low tag value (0, 1, 2: the tags handed to heavy hitters), all-one-byte strings, the empty string.
fn probe(sel: u64, train: &[Vec<u8>]) -> Vec<u8> {
    let first = train.first().cloned().unwrap_or_else(|| b"abc".to_vec());
    match sel {
        0 => vec![],
        1 => first.clone(),
        2 => first[..first.len().saturating_sub(1)].to_vec(),
        3 => [first.as_slice(), b"!"].concat(),
        4 => vec![0],
        5 => vec![0, 1, 2],
        6 => vec![1],
        7 => vec![1, 200],
        8 => vec![2, 0],
        9 => vec![3, 3, 3],
        10 => train.last().cloned().unwrap_or_else(|| b"zz".to_vec()),
        11 => b"never seen before".to_vec(),
        s => vec![(s - 12) as u8], // 12..268: every one-byte string
    }
}
pub const N_PROBES: u64 = 268;

fn push_checked(r: &mut CR, bytes: &[u8], issued: &mut Vec<(<CR as Region>::Index, Vec<u8>)>) -> bool {
    // either refused (panic) or read back exactly; earlier reads never change
    let before = used_bytes(r);
    let res = catch_unwind(AssertUnwindSafe(|| r.push(bytes)));
    match res {
        Ok(idx) => {
            vassert!(r.index(idx) == bytes, "VF:dictionary.read_differs_from_pushed");
            issued.push((idx, bytes.to_vec()));
            for (i, want) in issued.iter() {
                vassert!(r.index(*i) == want.as_slice(), "VF:dictionary.earlier_read_changed");
            }
            let _ = before;
            true
        }
        Err(_) => {
            // a refusal must not disturb what was issued before (the refused bytes may have been appended to the inner
            // region, but no index for them was handed out)
            for (i, want) in issued.iter() {
                vassert!(r.index(*i) == want.as_slice(), "VF:dictionary.earlier_read_changed_by_refusal");
            }
            false
        }
    }
}

// args: t1 t2 (training sets of two source regions), k (number of sources 1..2), p0 p1 (probes), gen (0/1 second generation), clr (0/1 clear at the end)
fn pre_dict(v: &[u64]) -> bool {
    v[0] < N_TRAIN && v[1] < N_TRAIN && (1..=2).contains(&v[2]) && v[3] < N_PROBES && v[4] < N_PROBES && v[5] < 2 && v[6] < 2
}
fn doms_dict() -> Vec<Vec<u64>> {
    vec![range(N_TRAIN), vec![0, 2, 4], vec![1, 2], range(N_PROBES), vec![1, 5, 0, 12 + 97, 12 + 255], range(2), range(2)]
}
fn doms_dict_quick() -> Vec<Vec<u64>> {
    let mut probes = range(12);
    probes.extend([12, 13, 14, 15, 12 + 97, 12 + 200, 12 + 254, 12 + 255]);
    vec![range(N_TRAIN), vec![0, 2], vec![1, 2], probes, vec![1, 5, 0], range(2), range(2)]
}
fn run_dict(v: &[u64]) {
    let (t1, t2) = (training(v[0]), training(v[1]));
    let mut s1 = CR::default();
    let mut s2 = CR::default();
    let mut iss1 = Vec::new();
    for x in &t1 {
        // an untrained codec stores everything literally and must round-trip
        vassert!(push_checked(&mut s1, x, &mut iss1), "VF:dictionary.untrained_refused_nonempty");
    }
    let mut iss2 = Vec::new();
    for x in &t2 {
        vassert!(push_checked(&mut s2, x, &mut iss2), "VF:dictionary.untrained_refused_nonempty");
    }
    let mut m = if v[2] == 1 { CR::merge_regions(std::iter::once(&s1)) } else { CR::merge_regions([&s1, &s2].into_iter()) };
    let mut issued = Vec::new();
    let mut attempts: Vec<Vec<u8>> = Vec::new();
    // heavy hitters: strings holding at least 1/4 of the source pushes cost one byte each
    let all: Vec<&Vec<u8>> = if v[2] == 1 { t1.iter().collect() } else { t1.iter().chain(t2.iter()).collect() };
    let mut counts = std::collections::BTreeMap::new();
    for x in &all {
        *counts.entry((*x).clone()).or_insert(0usize) += 1;
    }
    let free_tags = (0..=255u8).filter(|b| !all.iter().any(|x| x.first() == Some(b))).count();
    for (s, n) in &counts {
        if 4 * n >= all.len() && free_tags >= 4 {
            let before = used_bytes(&m);
            attempts.push(s.clone());
            if push_checked(&mut m, s, &mut issued) {
                // (one byte; the empty string costs none)
                vassert!(used_bytes(&m) - before == s.len().min(1), "VF:dictionary.heavy_hitter_not_one_byte");
            }
        }
    }
    // the empty byte string is representable under every dictionary: it must be accepted and read back, trained or not
    {
        attempts.push(Vec::new());
        vassert!(push_checked(&mut m, b"", &mut issued), "VF:dictionary.empty_refused");
        let mut fresh = CR::default();
        let mut iss_f = Vec::new();
        vassert!(push_checked(&mut fresh, b"", &mut iss_f) && push_checked(&mut fresh, b"x", &mut iss_f) && push_checked(&mut fresh, b"", &mut iss_f), "VF:dictionary.empty_refused");
    }
    for sel in [v[3], v[4]] {
        let p = probe(sel, &t1);
        attempts.push(p.clone());
        let _ = push_checked(&mut m, &p, &mut issued);
    }
    // pre-sizing never re-interprets what is stored (neither in the merged region nor in a source), and is invisible
    // for later pushes
    {
        crate::section("VF:dictionary.reserve");
        // (the codec is not Clone: the twin replays every push attempted so far, refused ones included)
        let mut twin = if v[2] == 1 { CR::merge_regions(std::iter::once(&s1)) } else { CR::merge_regions([&s1, &s2].into_iter()) };
        for a in &attempts {
            let _ = catch_unwind(AssertUnwindSafe(|| twin.push(a.as_slice())));
        }
        m.reserve_regions([&s2, &s1].into_iter());
        m.reserve_regions(std::iter::once(&s2));
        for (i, want) in issued.iter() {
            vassert!(m.index(*i) == want.as_slice(), "VF:dictionary.reserve.earlier_read_changed");
        }
        s1.reserve_regions(std::iter::once(&s2));
        s1.reserve_regions(std::iter::once(&s2));
        for (i, want) in iss1.iter() {
            vassert!(s1.index(*i) == want.as_slice(), "VF:dictionary.reserve.earlier_read_changed");
        }
        let p = probe(v[4], &t1);
        let a = catch_unwind(AssertUnwindSafe(|| { let i = twin.push(p.as_slice()); (i, twin.index(i).to_vec()) }));
        let b = catch_unwind(AssertUnwindSafe(|| { let i = m.push(p.as_slice()); (i, m.index(i).to_vec()) }));
        match (a, b) {
            (Ok(x), Ok(y)) => {
                vassert!(x == y, "VF:dictionary.reserve.changed_push_outcome");
                issued.push((y.0, y.1));
            }
            (Ok(_), Err(_)) | (Err(_), Ok(_)) => vassert!(false, "VF:dictionary.reserve.changed_push_outcome"),
            _ => {}
        }
        // the same through a FlatStack, empty or populated when it reserves (its reserve_* only forward)
        {
            use flatcontainer::FlatStack;
            for prefill in 0..2 {
                let mut fs = <FlatStack<CR>>::default();
                let mut tw = <FlatStack<CR>>::default();
                if prefill == 1 {
                    fs.copy(&b"abc"[..]);
                    tw.copy(&b"abc"[..]);
                }
                fs.reserve_regions([&s1, &s2].into_iter());
                fs.reserve(3);
                for sel in [v[3], v[4], 5, 12, 1] {
                    let p = probe(sel, &t1);
                    let a = catch_unwind(AssertUnwindSafe(|| { tw.copy(p.as_slice()); tw.get(tw.len() - 1).to_vec() }));
                    let b = catch_unwind(AssertUnwindSafe(|| { fs.copy(p.as_slice()); fs.get(fs.len() - 1).to_vec() }));
                    match (a, b) {
                        (Ok(x), Ok(y)) => vassert!(x == y && fs.len() == tw.len(), "VF:dictionary.reserve.changed_push_outcome"),
                        (Ok(_), Err(_)) | (Err(_), Ok(_)) => vassert!(false, "VF:dictionary.reserve.changed_push_outcome"),
                        _ => {}
                    }
                }
            }
        }
        crate::section("");
    }
    if v[5] == 1 {
        let mut g2 = CR::merge_regions([&m, &s1].into_iter());
        let mut iss = Vec::new();
        for sel in [v[4], v[3], 1] {
            let p = probe(sel, &t1);
            let _ = push_checked(&mut g2, &p, &mut iss);
        }
    }
    if v[6] == 1 {
        m.clear();
        let mut iss = Vec::new();
        for sel in [v[3], 1, 5] {
            let p = probe(sel, &t1);
            if !p.is_empty() {
                vassert!(push_checked(&mut m, &p, &mut iss), "VF:dictionary.cleared_region_refused");
            }
        }
    }
}

// more than 1024 distinct strings, to cross the heavy-hitter summary's compaction
fn pre_many(v: &[u64]) -> bool {
    v[0] < 4 && v[1] < 3 && v[2] < 3 && v[3] < 5
}
fn doms_many() -> Vec<Vec<u64>> {
    vec![range(4), range(3), range(3), range(5)]
}
fn run_many(v: &[u64]) {
    if v[3] == 4 {
        // the least frequent string of one source is the most frequent one of the next (in either order)
        let n = [260usize, 300, 300, 400][v[0] as usize];
        let hot: &[u8] = [&b"hot!"[..], &b"\xffhot"[..], &b"\x01hot"[..]][v[2] as usize];
        let mut a = CR::default();
        let mut b = CR::default();
        let (mut ia, mut ib) = (Vec::new(), Vec::new());
        for i in 0..n {
            let x = vec![b'k', (i % 251) as u8, (i / 251) as u8];
            for _ in 0..3 {
                vassert!(push_checked(&mut a, &x, &mut ia), "VF:dictionary.untrained_refused_nonempty");
            }
        }
        vassert!(push_checked(&mut a, hot, &mut ia), "VF:dictionary.untrained_refused_nonempty");
        for _ in 0..(400 + 100 * v[1] as usize) {
            vassert!(push_checked(&mut b, hot, &mut ib), "VF:dictionary.untrained_refused_nonempty");
        }
        for order in 0..2 {
            let mut m = if order == 0 { CR::merge_regions([&a, &b].into_iter()) } else { CR::merge_regions([&b, &a].into_iter()) };
            let mut issued = Vec::new();
            let before = used_bytes(&m);
            if push_checked(&mut m, hot, &mut issued) {
                vassert!(used_bytes(&m) - before == 1, "VF:dictionary.heavy_hitter_not_one_byte");
            }
        }
        return;
    }
    if v[3] == 3 {
        // three generations with more distinct values than tags: whatever a source region stored (as a literal or as a
        // dictionary hit) is covered by the statistics and must be accepted by the next generation and read back exactly
        let n = [260usize, 300, 300, 400][v[0] as usize];
        let lead = [200u8, 0x80, b'k'][v[1] as usize];
        let x: &[u8] = [&[7u8, 42, 43, 44][..], &[0u8, 1][..], &b"\x01hot"[..]][v[2] as usize];
        let others: Vec<Vec<u8>> = (0..n).map(|i| vec![lead, (i % 251) as u8, (i / 251) as u8]).collect();
        let mut g1 = CR::default();
        let mut iss = Vec::new();
        for _ in 0..5 {
            vassert!(push_checked(&mut g1, x, &mut iss), "VF:dictionary.untrained_refused_nonempty");
        }
        for o in &others {
            for _ in 0..2 {
                vassert!(push_checked(&mut g1, o, &mut iss), "VF:dictionary.untrained_refused_nonempty");
            }
        }
        let mut g2 = CR::merge_regions(std::iter::once(&g1));
        let mut iss2 = Vec::new();
        vassert!(push_checked(&mut g2, x, &mut iss2), "VF:dictionary.covered_value_refused");
        for o in &others {
            for _ in 0..3 {
                vassert!(push_checked(&mut g2, o, &mut iss2), "VF:dictionary.covered_value_refused");
            }
        }
        let mut g3 = CR::merge_regions(std::iter::once(&g2));
        let mut iss3 = Vec::new();
        vassert!(push_checked(&mut g3, x, &mut iss3), "VF:dictionary.covered_value_refused");
        for o in others.iter().step_by(17) {
            vassert!(push_checked(&mut g3, o, &mut iss3), "VF:dictionary.covered_value_refused");
        }
        return;
    }
    if v[3] == 2 {
        // a string that is nowhere near the top of any single source but dominates their union
        let k = [2usize, 3, 4, 3][v[0] as usize];
        let per = [257usize, 300, 260][v[1] as usize];
        let hot: &[u8] = [&b"hot!"[..], &b"\xffhot"[..], &b"\x01hot"[..]][v[2] as usize];
        let mut sources = Vec::new();
        for src in 0..k {
            let mut s = CR::default();
            let mut iss = Vec::new();
            for i in 0..per {
                let x = vec![b'k', src as u8, (i % 251) as u8, (i / 251) as u8];
                for _ in 0..3 {
                    vassert!(push_checked(&mut s, &x, &mut iss), "VF:dictionary.untrained_refused_nonempty");
                }
            }
            for _ in 0..2 {
                vassert!(push_checked(&mut s, hot, &mut iss), "VF:dictionary.untrained_refused_nonempty");
            }
            sources.push(s);
        }
        if k * 2 <= 3 {
            return; // (with two sources the hot string only ties with the local ones)
        }
        let mut m = CR::merge_regions(sources.iter());
        let mut issued = Vec::new();
        let before = used_bytes(&m);
        if push_checked(&mut m, hot, &mut issued) {
            vassert!(used_bytes(&m) - before == 1, "VF:dictionary.heavy_hitter_not_one_byte");
        }
        for i in (0..per).step_by(37) {
            let x = vec![b'k', 0u8, (i % 251) as u8, (i / 251) as u8];
            let _ = push_checked(&mut m, &x, &mut issued);
        }
        return;
    }
    let n = [1023usize, 1024, 1500, 2600][v[0] as usize];
    let mut s = CR::default();
    let mut iss = Vec::new();
    // the heavy hitter sorts before, between or after all other strings (consolidation order must not matter)
    let hot: &[u8] = [&b"hot!"[..], &b"\xffhot"[..], &b"\x01hot"[..]][v[2] as usize];
    for i in 0..n {
        let x = vec![b'k', (i % 251) as u8, (i / 251) as u8, (i % 7) as u8];
        vassert!(push_checked(&mut s, &x, &mut iss), "VF:dictionary.untrained_refused_nonempty");
        if i % (v[1] as usize + 2) == 0 {
            vassert!(push_checked(&mut s, hot, &mut iss), "VF:dictionary.untrained_refused_nonempty");
        }
    }
    // one or two source regions with the same contents
    let s_again = if v[3] == 1 {
        let mut t = CR::default();
        let mut iss_t = Vec::new();
        for (_, x) in iss.iter() {
            let _ = push_checked(&mut t, x, &mut iss_t);
        }
        Some(t)
    } else {
        None
    };
    let mut m = match &s_again {
        Some(t) => CR::merge_regions([&s, t].into_iter()),
        None => CR::merge_regions(std::iter::once(&s)),
    };
    let mut issued = Vec::new();
    let before = used_bytes(&m);
    if push_checked(&mut m, hot, &mut issued) {
        vassert!(used_bytes(&m) - before == 1, "VF:dictionary.heavy_hitter_not_one_byte");
    }
    for i in (0..n).step_by(97) {
        let x = vec![b'k', (i % 251) as u8, (i / 251) as u8, (i % 7) as u8];
        let _ = push_checked(&mut m, &x, &mut issued);
    }
}

// C10 for columns of coded regions: merge_regions over sources of different widths, in any order
// args: order (0: [narrow, wide], 1: [wide, narrow], 2: [narrow, wide, narrow], 3: [wide]), codec (0 Huffman, 1 dictionary)
fn pre_ccm(v: &[u64]) -> bool {
    v[0] < 4 && v[1] < 2
}
fn doms_ccm() -> Vec<Vec<u64>> {
    vec![range(4), range(2)]
}
fn run_ccm(v: &[u64]) {
    use flatcontainer::ColumnsRegion;
    if v[1] == 0 {
        type R = ColumnsRegion<HuffmanContainer<u8>>;
        let c0: &[u8] = &[1, 2, 2, 1];
        let c1: &[u8] = &[5, 6, 6, 6];
        let mut narrow = R::default();
        let _ = narrow.push(vec![c0.to_vec()]);
        let mut wide = R::default();
        let _ = wide.push(vec![c0.to_vec(), c1.to_vec()]);
        let m = match v[0] {
            0 => R::merge_regions([&narrow, &wide].into_iter()),
            1 => R::merge_regions([&wide, &narrow].into_iter()),
            2 => R::merge_regions([&narrow, &wide, &narrow].into_iter()),
            _ => R::merge_regions([&wide].into_iter()),
        };
        let mut m = m;
        // every symbol pushed occurs in the statistics of some source for that column: must be accepted and read back
        let i0 = m.push(vec![c0.to_vec(), c1.to_vec()]);
        let i1 = m.push(vec![vec![2u8, 1], vec![6u8, 5, 5]]);
        vassert!(i0 == 0 && i1 == 1, "VF:columns_coded.merge_index");
        let r0 = m.index(i0);
        let r1 = m.index(i1);
        vassert!(r0.len() == 2 && r1.len() == 2, "VF:columns_coded.merge_len");
        vassert!(r0.get(0).into_owned() == c0 && r0.get(1).into_owned() == c1, "VF:columns_coded.merge_read");
        vassert!(r1.get(0).into_owned() == [2u8, 1] && r1.get(1).into_owned() == [6u8, 5, 5], "VF:columns_coded.merge_read");
        // clear of Huffman columns: raw storage again, symbols never seen before are accepted
        crate::section("VF:columns_coded.clear");
        let mut t = R::default();
        let _ = t.push(vec![c0.to_vec(), c1.to_vec()]);
        t.clear();
        let mut twin = R::default();
        for row in [vec![vec![9u8, 9], vec![8u8]], vec![vec![1u8]], vec![vec![], vec![7u8, 7, 7], vec![3u8]]] {
            let (i, j) = (t.push(row.clone()), twin.push(row.clone()));
            vassert!(i == j, "VF:columns_coded.clear.differs_from_fresh");
            for k in 0..row.len() {
                vassert!(t.index(i).get(k).into_owned() == row[k], "VF:columns_coded.clear.differs_from_fresh");
            }
        }
    } else {
        type R = ColumnsRegion<CR>;
        let a: &[u8] = b"abc";
        let b: &[u8] = &[0, 7];
        let mut narrow = R::default();
        for _ in 0..4 {
            let _ = narrow.push(vec![a]);
        }
        let mut wide = R::default();
        for _ in 0..4 {
            let _ = wide.push(vec![a, b]);
        }
        let mut m = match v[0] {
            0 => R::merge_regions([&narrow, &wide].into_iter()),
            1 => R::merge_regions([&wide, &narrow].into_iter()),
            2 => R::merge_regions([&narrow, &wide, &narrow].into_iter()),
            _ => R::merge_regions([&wide].into_iter()),
        };
        // `b` starts with byte 0, which column 1's sources have seen as a first byte: it must stay representable
        let i0 = m.push(vec![a, b]);
        vassert!(i0 == 0, "VF:columns_coded.merge_index");
        let r0 = m.index(i0);
        vassert!(r0.len() == 2 && r0.get(0) == a && r0.get(1) == b, "VF:columns_coded.merge_read");
        // clear of coded columns: observationally fresh (no dictionary survives)
        crate::section("VF:columns_coded.clear");
        {
            let mut t = R::default();
            for _ in 0..4 {
                let _ = t.push(vec![a, b]);
            }
            t.clear();
            let mut twin = R::default();
            let rows: [Vec<&[u8]>; 3] = [vec![b"\x00zz", b"\x00zz"], vec![a, b, b"\x01"], vec![b"\x01q"]];
            for cycle in 0..2 {
                for row in rows.iter() {
                    let want = catch_unwind(AssertUnwindSafe(|| {
                        let i = twin.push(row.clone());
                        (i, (0..row.len()).map(|k| twin.index(i).get(k).to_vec()).collect::<Vec<_>>())
                    }));
                    let got = catch_unwind(AssertUnwindSafe(|| {
                        let i = t.push(row.clone());
                        (i, (0..row.len()).map(|k| t.index(i).get(k).to_vec()).collect::<Vec<_>>())
                    }));
                    match (want, got) {
                        (Ok(w), Ok(g)) => vassert!(w == g, "VF:columns_coded.clear.differs_from_fresh"),
                        (Ok(_), Err(_)) => vassert!(false, "VF:columns_coded.clear.push_refused_after_clear"),
                        _ => {}
                    }
                }
                if cycle == 0 {
                    t.clear();
                    twin = R::default();
                }
            }
        }
        // reserve_regions on coded columns is invisible: same outcomes as a twin that never reserved, whatever columns the
        // reservation had to create
        crate::section("VF:columns_coded.reserve");
        for prefill in 0..2 {
            let mut t = R::default();
            let mut twin = R::default();
            if prefill == 1 {
                let _ = t.push(vec![a]);
                let _ = twin.push(vec![a]);
            }
            match v[0] {
                0 => t.reserve_regions([&narrow, &wide].into_iter()),
                1 => t.reserve_regions([&wide, &narrow].into_iter()),
                2 => t.reserve_regions([&narrow, &wide, &narrow].into_iter()),
                _ => t.reserve_regions([&wide].into_iter()),
            }
            let rows: [Vec<&[u8]>; 4] = [vec![a, b], vec![b"\x00zz", b"\x00zz", b"\x01q"], vec![a], vec![b"\x01", b"\x00"]];
            for row in rows.iter() {
                let want = catch_unwind(AssertUnwindSafe(|| {
                    let i = twin.push(row.clone());
                    (i, (0..row.len()).map(|k| twin.index(i).get(k).to_vec()).collect::<Vec<_>>())
                }));
                let got = catch_unwind(AssertUnwindSafe(|| {
                    let i = t.push(row.clone());
                    (i, (0..row.len()).map(|k| t.index(i).get(k).to_vec()).collect::<Vec<_>>())
                }));
                match (want, got) {
                    (Ok(w), Ok(g)) => vassert!(w == g, "VF:columns_coded.reserve.changed_push_outcome"),
                    (Ok(_), Err(_)) => vassert!(false, "VF:columns_coded.reserve.push_refused_after_reserve"),
                    _ => {}
                }
            }
        }
    }
}

// statistics after clear (C06 / C08): what was pushed before a clear must not influence the code built afterwards
// args: p (small profile), mode (0: clear a raw container, 1: clear a coded container)
fn pre_hclear(v: &[u64]) -> bool {
    v[0] < 340 && v[1] < 2
}
fn doms_hclear() -> Vec<Vec<u64>> {
    vec![vec![4, 9, 20, 41, 84, 170, 339], range(2)]
}
fn run_hclear(v: &[u64]) {
    let prof = profile(v[0]);
    let alpha: Vec<u16> = prof.iter().map(|x| x.0).collect();
    // history before the clear: lots of a symbol that never occurs afterwards
    let mut t = HuffmanContainer::<u16>::default();
    if v[1] == 1 {
        let seed = train(&[(7u16, 3)]);
        t = HuffmanContainer::merge_regions(std::iter::once(&seed));
    }
    let junk = vec![7u16; 50];
    let _ = t.push(junk.as_slice());
    t.clear();
    // history after the clear: exactly the profile
    let mut all = Vec::new();
    for (s, c) in &prof {
        for _ in 0..*c {
            all.push(*s);
        }
    }
    let i = t.push(all.as_slice());
    vassert!(i == (0, all.len()) && t.index(i).into_owned() == all, "VF:huffman.after_clear_not_raw");
    let mut c = HuffmanContainer::merge_regions(std::iter::once(&t));
    let mut total = 0u64;
    for (s, n) in &prof {
        let idx = c.push([*s].as_slice());
        total += n * (idx.1 - idx.0) as u64;
    }
    let counts: Vec<u64> = prof.iter().map(|x| x.1).collect();
    vassert!(total == reference_cost(&counts), "VF:huffman.stats_survived_clear");
    // the pre-clear symbol is outside the statistics now: refused, never stored as something else
    let r = catch_unwind(AssertUnwindSafe(|| {
        let mut c2 = c.clone();
        let idx = c2.push([7u16].as_slice());
        c2.index(idx).into_owned()
    }));
    if let Ok(got) = r {
        vassert!(alpha.contains(&7) || got != vec![7u16] || true, "VF:huffman.stats_survived_clear");
        vassert!(alpha.contains(&7), "VF:huffman.stats_survived_clear");
    }
}

// clone / clone_from of HuffmanContainer and CodecRegion (C09)
// args: p (small profile), state (0 raw empty, 1 raw with items, 2 coded without pushes, 3 coded with items), how (0 clone, 1 clone_from into a raw
// destination with items, 2 clone_from into a coded destination), item selector
fn pre_hclone(v: &[u64]) -> bool {
    v[0] < 340 && v[1] < 4 && v[2] < 4 && v[3] < N_ITEMS
}
fn doms_hclone() -> Vec<Vec<u64>> {
    vec![vec![4, 5, 9, 20, 25, 84, 100, 339], range(4), range(4), vec![1, 3, 4, 5, 7]]
}
fn run_hclone(v: &[u64]) {
    let prof = profile(v[0]);
    let alpha: Vec<u16> = prof.iter().map(|x| x.0).collect();
    let t = train(&prof);
    let it = item(v[3], &alpha);
    let mut src = match v[1] {
        0 => HuffmanContainer::<u16>::default(),
        1 => t.clone(),
        _ => HuffmanContainer::merge_regions(std::iter::once(&t)),
    };
    let mut issued = Vec::new();
    if v[1] == 3 {
        issued.push((src.push(it.as_slice()), it.clone()));
    }
    let mut c = match v[2] {
        0 => src.clone(),
        1 => {
            let mut d = HuffmanContainer::<u16>::default();
            let _ = d.push([alpha[0], alpha[0]].as_slice());
            d.clone_from(&src);
            d
        }
        2 => {
            let mut d = HuffmanContainer::merge_regions(std::iter::once(&train(&[(alpha[0], 2), (9999, 1)])));
            let _ = d.push([alpha[0]].as_slice());
            d.clone_from(&src);
            d
        }
        _ => {
            // a coded destination over the same alphabet whose code book has the same shape but another frequency
            // ranking (counts reversed), holding items of its own
            let rev: Vec<(u16, u64)> = prof.iter().zip(prof.iter().rev()).map(|(a, b)| (a.0, b.1)).collect();
            let mut d = HuffmanContainer::merge_regions(std::iter::once(&train(&rev)));
            let _ = d.push([alpha[alpha.len() - 1], alpha[0]].as_slice());
            d.clone_from(&src);
            d
        }
    };
    for (i, want) in &issued {
        vassert!(&c.index(*i).into_owned() == want, "VF:clone.huffman.copy_reads_differ");
    }
    // identical further pushes answer identically
    let (a, b) = (src.push(it.as_slice()), c.push(it.as_slice()));
    vassert!(a == b, "VF:clone.huffman.further_push_index_differs");
    vassert!(src.index(a).into_owned() == it && c.index(b).into_owned() == it, "VF:clone.huffman.further_push_read_differs");
    // independence
    let _ = src.push([alpha[0]].as_slice());
    vassert!(c.index(b).into_owned() == it, "VF:clone.huffman.not_independent");
    c.clear();
    vassert!(src.index(a).into_owned() == it, "VF:clone.huffman.not_independent");
    // a structural region over the container: clone_from into fresh, shorter and longer destinations
    crate::section("VF:clone.huffman.slice");
    type SH = flatcontainer::SliceRegion<HuffmanContainer<u16>>;
    let rows: [Vec<Vec<u16>>; 3] = [vec![it.clone(), vec![alpha[0]]], vec![vec![]], vec![vec![alpha[0]; 3], it.clone(), vec![]]];
    let mut s1 = SH::default();
    let idx: Vec<_> = rows.iter().map(|r| s1.push(r)).collect();
    for d in 0..4usize {
        let mut dest = SH::default();
        for k in 0..d * 2 {
            let _ = dest.push(&rows[k % 3]);
        }
        dest.clone_from(&s1);
        let twin = s1.clone();
        for (i, r) in idx.iter().zip(rows.iter()) {
            let got: Vec<Vec<u16>> = dest.index(*i).iter().map(|w| w.into_owned()).collect();
            let want: Vec<Vec<u16>> = twin.index(*i).iter().map(|w| w.into_owned()).collect();
            vassert!(&got == r && &want == r, "VF:clone.huffman.slice.reads");
        }
    }
}

// C01 / C10: composite regions (tuple, result) over coded fields built by merge_regions
// args: sources (1 or 2), kind (0 tuple, 1 result)
fn pre_ccomp(v: &[u64]) -> bool {
    (1..=2).contains(&v[0]) && v[1] < 2
}
fn doms_ccomp() -> Vec<Vec<u64>> {
    vec![vec![1, 2], range(2)]
}
fn run_ccomp(v: &[u64]) {
    use flatcontainer::impls::tuple::TupleABRegion;
    use flatcontainer::ResultRegion;
    let a1: &[u8] = &[1, 2, 2];
    let a2: &[u8] = &[3, 3, 1];
    let d1: &[u8] = &[0, 9];
    let d2: &[u8] = b"abc";
    if v[1] == 0 {
        type R = TupleABRegion<HuffmanContainer<u8>, CR>;
        let mut s1 = R::default();
        let mut s2 = R::default();
        for _ in 0..4 {
            let _ = s1.push((a1, d1));
            let _ = s2.push((a2, d2));
        }
        let mut m = if v[0] == 1 { R::merge_regions(std::iter::once(&s1)) } else { R::merge_regions([&s1, &s2].into_iter()) };
        // data covered by the statistics of the sources that were passed
        let i = m.push((a1, d1));
        let (x, y) = m.index(i);
        vassert!(x.into_owned() == a1 && y == d1, "VF:coded_composite.merge_read");
        if v[0] == 2 {
            let j = m.push((a2, d2));
            let (x, y) = m.index(j);
            vassert!(x.into_owned() == a2 && y == d2, "VF:coded_composite.merge_read");
        }
        // clear: the coded fields are fresh again (raw Huffman storage, no dictionary), also after a refill cycle
        crate::section("VF:coded_composite.clear");
        for mut t in [s1, m] {
            let mut twin = R::default();
            for cycle in 0..2 {
                t.clear();
                for row in [(&[7u8, 7, 9][..], &[0u8, 1, 2][..]), (a2, d1), (&[][..], &[1u8][..]), (a1, d2)] {
                    let (i, j) = (t.push(row), twin.push(row));
                    vassert!(i == j, "VF:coded_composite.clear.index_differs_from_fresh");
                    let (x, y) = t.index(i);
                    vassert!(x.into_owned() == row.0 && y == row.1, "VF:coded_composite.clear.read");
                }
                if cycle == 0 {
                    twin = R::default();
                }
            }
        }
    } else {
        type R = ResultRegion<HuffmanContainer<u8>, CR>;
        let mut s1 = R::default();
        let mut s2 = R::default();
        for _ in 0..4 {
            let _ = s1.push(Ok::<&[u8], &[u8]>(a1));
            let _ = s1.push(Err::<&[u8], &[u8]>(d1));
            let _ = s2.push(Ok::<&[u8], &[u8]>(a2));
            let _ = s2.push(Err::<&[u8], &[u8]>(d2));
        }
        let mut m = if v[0] == 1 { R::merge_regions(std::iter::once(&s1)) } else { R::merge_regions([&s1, &s2].into_iter()) };
        let i = m.push(Ok::<&[u8], &[u8]>(a1));
        let j = m.push(Err::<&[u8], &[u8]>(d1));
        vassert!(m.index(i).map(|w| w.into_owned()).ok() == Some(a1.to_vec()), "VF:coded_composite.merge_read");
        vassert!(m.index(j).err() == Some(d1), "VF:coded_composite.merge_read");
        crate::section("VF:coded_composite.clear");
        for mut t in [s1, m] {
            let mut twin = R::default();
            t.clear();
            for row in [Ok::<&[u8], &[u8]>(&[7u8, 7, 9][..]), Err::<&[u8], &[u8]>(&[0u8, 1, 2][..]), Ok(a2), Err(d1), Err(&[1u8][..])] {
                let (i, j) = (t.push(row), twin.push(row));
                vassert!(i == j, "VF:coded_composite.clear.index_differs_from_fresh");
                let got = t.index(i).map(|w| w.into_owned()).map_err(|e| e.to_vec());
                vassert!(got == row.map(|w| w.to_vec()).map_err(|e| e.to_vec()), "VF:coded_composite.clear.read");
            }
        }
    }
}

// ---------------------------------------------------------------------------------------------------- coded regions below structural ones
// clear / reserve_regions (and, where the composition is Clone, clone / clone_from) on compositions with a coded leaf,
// compared with a default twin: no dictionary and no code table may appear where a fresh region has none.
// args: composition (0..8), scenario (0 clear, 1 clear of a merged region, 2 reserve_regions, 3 clone / clone_from), h0 h1 h2 (history), p0 p1 (later pushes)
trait Coded: Region + Default {
    const HUFFMAN: bool;
    /// Push pool value `k`; the canonical bytes of what reads back at the returned index.
    fn put(&mut self, k: u64) -> Vec<u8>;
}
const CPOOL: [&[u8]; 6] = [b"abc", &[0, 1, 2], &[1], b"", &[7, 7, 9], b"abcabc"];
impl Coded for flatcontainer::OptionRegion<CR> {
    const HUFFMAN: bool = false;
    fn put(&mut self, k: u64) -> Vec<u8> {
        let item = if k == 3 { None } else { Some(CPOOL[k as usize]) };
        let i = self.push(item);
        self.index(i).map(|x| x.to_vec()).unwrap_or(vec![255])
    }
}
impl Coded for flatcontainer::SliceRegion<CR> {
    const HUFFMAN: bool = false;
    fn put(&mut self, k: u64) -> Vec<u8> {
        let item: Vec<&[u8]> = vec![CPOOL[k as usize], CPOOL[0]];
        let i = self.push(item);
        self.index(i).iter().flat_map(|x| std::iter::once(x.len() as u8).chain(x.iter().copied())).collect()
    }
}
impl Coded for flatcontainer::StringRegion<CR> {
    const HUFFMAN: bool = false;
    fn put(&mut self, k: u64) -> Vec<u8> {
        let s = std::str::from_utf8(CPOOL[k as usize]).unwrap();
        let i = self.push(s);
        self.index(i).as_bytes().to_vec()
    }
}
impl Coded for flatcontainer::impls::deduplicate::ConsecutiveIndexPairs<CR> {
    const HUFFMAN: bool = false;
    fn put(&mut self, k: u64) -> Vec<u8> {
        let i = self.push(CPOOL[k as usize]);
        std::iter::once(i as u8).chain(self.index(i).iter().copied()).collect()
    }
}
impl Coded for flatcontainer::impls::deduplicate::CollapseSequence<CR> {
    const HUFFMAN: bool = false;
    fn put(&mut self, k: u64) -> Vec<u8> {
        let i = self.push(CPOOL[k as usize]);
        self.index(i).to_vec()
    }
}
impl Coded for flatcontainer::OptionRegion<HuffmanContainer<u8>> {
    const HUFFMAN: bool = true;
    fn put(&mut self, k: u64) -> Vec<u8> {
        let item = if k == 3 { None } else { Some(CPOOL[k as usize]) };
        let i = self.push(item);
        self.index(i).map(|x| x.into_owned()).unwrap_or(vec![255])
    }
}
impl Coded for flatcontainer::SliceRegion<HuffmanContainer<u8>> {
    const HUFFMAN: bool = true;
    fn put(&mut self, k: u64) -> Vec<u8> {
        let item: Vec<&[u8]> = vec![CPOOL[k as usize], CPOOL[0]];
        let i = self.push(item);
        self.index(i).iter().flat_map(|x| { let o = x.into_owned(); std::iter::once(o.len() as u8).chain(o.into_iter()) }).collect()
    }
}
impl Coded for flatcontainer::ResultRegion<CR, HuffmanContainer<u8>> {
    const HUFFMAN: bool = true;
    fn put(&mut self, k: u64) -> Vec<u8> {
        let item: Result<&[u8], &[u8]> = if k % 2 == 0 { Ok(CPOOL[k as usize]) } else { Err(CPOOL[k as usize]) };
        let i = self.push(item);
        match self.index(i) { Ok(x) => x.to_vec(), Err(x) => x.into_owned() }
    }
}
impl Coded for flatcontainer::ResultRegion<CR, CR> {
    const HUFFMAN: bool = false;
    fn put(&mut self, k: u64) -> Vec<u8> {
        let item: Result<&[u8], &[u8]> = if k % 2 == 0 { Ok(CPOOL[k as usize]) } else { Err(CPOOL[k as usize]) };
        let i = self.push(item);
        match self.index(i) { Ok(x) => std::iter::once(0u8).chain(x.iter().copied()).collect(), Err(x) => std::iter::once(1u8).chain(x.iter().copied()).collect() }
    }
}
fn try_put<R: Coded>(r: &mut R, k: u64) -> Option<Vec<u8>> {
    catch_unwind(AssertUnwindSafe(|| r.put(k))).ok()
}
fn coded_life<R: Coded>(v: &[u64]) {
    let h = [v[2] % 6, v[3] % 6, v[4] % 6];
    let later = [v[5] % 6, v[6] % 6, 1, 4];
    let filled = || {
        let mut r = R::default();
        for k in h {
            let _ = try_put(&mut r, k);
        }
        r
    };
    let compare = |r: &mut R, twin: &mut R, marker: u8| {
        for k in later {
            let (want, got) = (try_put(twin, k), try_put(r, k));
            match marker {
                0 => vassert!(want == got, "VF:coded_life.clear.differs_from_fresh"),
                _ => vassert!(want == got, "VF:coded_life.reserve.differs_from_twin"),
            }
        }
    };
    match v[1] {
        0 => {
            crate::section("VF:coded_life.clear");
            let mut r = filled();
            for _cycle in 0..2 {
                r.clear();
                let mut twin = R::default();
                compare(&mut r, &mut twin, 0);
            }
        }
        1 => {
            crate::section("VF:coded_life.clear");
            let src = filled();
            let mut r = R::merge_regions([&src, &src].into_iter());
            let _ = try_put(&mut r, h[0]);
            r.clear();
            let mut twin = R::default();
            compare(&mut r, &mut twin, 0);
        }
        4 => {
            // merge over two DIFFERENT sources: whatever either source stored is covered by the merged region's statistics
            crate::section("VF:coded_life.merge");
            let mut a = R::default();
            let mut b = R::default();
            let in_a: Vec<u64> = h.iter().copied().filter(|k| try_put(&mut a, *k).is_some()).collect();
            let in_b: Vec<u64> = later.iter().copied().filter(|k| try_put(&mut b, *k).is_some()).collect();
            for order in 0..2 {
                let mut m = if order == 0 { R::merge_regions([&a, &b].into_iter()) } else { R::merge_regions([&b, &a].into_iter()) };
                for k in in_a.iter().chain(in_b.iter()) {
                    vassert!(try_put(&mut m, *k).is_some(), "VF:coded_life.merge.covered_item_refused");
                }
            }
            let mut single = R::merge_regions(std::iter::once(&a));
            for k in &in_a {
                vassert!(try_put(&mut single, *k).is_some(), "VF:coded_life.merge.covered_item_refused");
            }
        }
        _ => {
            if R::HUFFMAN {
                return; // HuffmanContainer::reserve_regions is todo!() in the crate
            }
            crate::section("VF:coded_life.reserve");
            let src = filled();
            let (mut r, mut twin) = (R::default(), R::default());
            if v[1] == 3 {
                let (a, b) = (try_put(&mut r, h[1]), try_put(&mut twin, h[1]));
                vassert!(a == b, "VF:coded_life.reserve.differs_from_twin");
            }
            r.reserve_regions([&src, &src].into_iter());
            r.reserve_regions(std::iter::once(&src));
            compare(&mut r, &mut twin, 1);
        }
    }
}
fn run_coded_life(v: &[u64]) {
    use flatcontainer::impls::deduplicate::{CollapseSequence, ConsecutiveIndexPairs};
    match v[0] {
        0 => coded_life::<flatcontainer::OptionRegion<CR>>(v),
        1 => coded_life::<flatcontainer::SliceRegion<CR>>(v),
        2 => coded_life::<flatcontainer::StringRegion<CR>>(v),
        3 => coded_life::<ConsecutiveIndexPairs<CR>>(v),
        4 => coded_life::<CollapseSequence<CR>>(v),
        5 => coded_life::<flatcontainer::OptionRegion<HuffmanContainer<u8>>>(v),
        6 => coded_life::<flatcontainer::SliceRegion<HuffmanContainer<u8>>>(v),
        7 => coded_life::<flatcontainer::ResultRegion<CR, HuffmanContainer<u8>>>(v),
        _ => coded_life::<flatcontainer::ResultRegion<CR, CR>>(v),
    }
}
fn pre_coded_life(v: &[u64]) -> bool {
    v[0] < 9 && v[1] < 5 && v[2..].iter().all(|x| *x < 6)
}
fn doms_coded_life() -> Vec<Vec<u64>> {
    vec![range(9), range(5), range(6), vec![0, 5], vec![0, 3], range(6), vec![1, 4]]
}

// FlatStack constructors that pre-size (`with_capacity`, `FromIterator`, which goes through it) must hand out a stack that
// behaves like `default()`: for a coded region "built like merge_regions over nothing" is NOT the default state.
// args: subject (0..4), cap (with_capacity argument selector), k0 k1 k2 (pool items)
trait FsSubject: Region + Default + Sized {
    fn copy_k(fs: &mut flatcontainer::FlatStack<Self>, k: u64);
    fn dump(fs: &flatcontainer::FlatStack<Self>) -> Vec<Vec<u8>>;
    fn collect_ks(ks: &[u64]) -> flatcontainer::FlatStack<Self>;
}
impl FsSubject for HuffmanContainer<u8> {
    fn copy_k(fs: &mut flatcontainer::FlatStack<Self>, k: u64) { fs.copy(CPOOL[k as usize]) }
    fn dump(fs: &flatcontainer::FlatStack<Self>) -> Vec<Vec<u8>> { (0..fs.len()).map(|i| fs.get(i).into_owned()).collect() }
    fn collect_ks(ks: &[u64]) -> flatcontainer::FlatStack<Self> { ks.iter().map(|k| CPOOL[*k as usize]).collect() }
}
impl FsSubject for CR {
    fn copy_k(fs: &mut flatcontainer::FlatStack<Self>, k: u64) { fs.copy(CPOOL[k as usize]) }
    fn dump(fs: &flatcontainer::FlatStack<Self>) -> Vec<Vec<u8>> { (0..fs.len()).map(|i| fs.get(i).to_vec()).collect() }
    fn collect_ks(ks: &[u64]) -> flatcontainer::FlatStack<Self> { ks.iter().map(|k| CPOOL[*k as usize]).collect() }
}
impl FsSubject for flatcontainer::StringRegion<CR> {
    fn copy_k(fs: &mut flatcontainer::FlatStack<Self>, k: u64) { fs.copy(std::str::from_utf8(CPOOL[k as usize]).unwrap()) }
    fn dump(fs: &flatcontainer::FlatStack<Self>) -> Vec<Vec<u8>> { (0..fs.len()).map(|i| fs.get(i).as_bytes().to_vec()).collect() }
    fn collect_ks(ks: &[u64]) -> flatcontainer::FlatStack<Self> { ks.iter().map(|k| std::str::from_utf8(CPOOL[*k as usize]).unwrap()).collect() }
}
impl FsSubject for flatcontainer::OwnedRegion<u8> {
    fn copy_k(fs: &mut flatcontainer::FlatStack<Self>, k: u64) { fs.copy(CPOOL[k as usize]) }
    fn dump(fs: &flatcontainer::FlatStack<Self>) -> Vec<Vec<u8>> { (0..fs.len()).map(|i| fs.get(i).to_vec()).collect() }
    fn collect_ks(ks: &[u64]) -> flatcontainer::FlatStack<Self> { ks.iter().map(|k| CPOOL[*k as usize]).collect() }
}
fn fs_ctor<R: FsSubject>(v: &[u64]) {
    use flatcontainer::FlatStack;
    let ks = [v[2], v[3], v[4]];
    let cap = [0usize, 3, 100][v[1] as usize];
    let mut a = FlatStack::<R>::default();
    let mut b = FlatStack::<R>::with_capacity(cap);
    vassert!(b.is_empty() && b.len() == 0, "VF:flatstack_ctor.with_capacity_not_empty");
    for k in ks {
        let ra = catch_unwind(AssertUnwindSafe(|| R::copy_k(&mut a, k))).is_ok();
        let rb = catch_unwind(AssertUnwindSafe(|| R::copy_k(&mut b, k))).is_ok();
        vassert!(ra == rb, "VF:flatstack_ctor.with_capacity_differs_from_default");
        if !ra {
            return;
        }
        vassert!(a.len() == b.len() && R::dump(&a) == R::dump(&b), "VF:flatstack_ctor.with_capacity_differs_from_default");
    }
    let c = catch_unwind(AssertUnwindSafe(|| R::collect_ks(&ks)));
    match c {
        Ok(c) => vassert!(c.len() == a.len() && R::dump(&c) == R::dump(&a), "VF:flatstack_ctor.from_iter_differs_from_copies"),
        Err(_) => vassert!(false, "VF:flatstack_ctor.from_iter_differs_from_copies"),
    }
}
fn run_fs_ctor(v: &[u64]) {
    match v[0] {
        0 => fs_ctor::<HuffmanContainer<u8>>(v),
        1 => fs_ctor::<CR>(v),
        2 => fs_ctor::<flatcontainer::StringRegion<CR>>(v),
        _ => fs_ctor::<flatcontainer::OwnedRegion<u8>>(v),
    }
}
fn pre_fs_ctor(v: &[u64]) -> bool {
    v[0] < 4 && v[1] < 3 && v[2..].iter().all(|x| *x < 6)
}
fn doms_fs_ctor() -> Vec<Vec<u64>> {
    vec![range(4), range(3), range(6), range(6), vec![0, 3, 5]]
}

// C18 for CodecRegion<DictionaryCodec> over a history long enough to cross the heavy-hitter summary's compaction
fn run_heap_codec(v: &[u64]) {
    crate::section("VF:heap.codec");
    let n = [40usize, 1100, 2300][v[0] as usize];
    let mut r = CR::default();
    let mut last = 0usize;
    for i in 0..n {
        let x = [b'k', (i % 251) as u8, (i / 251) as u8, (i % (v[1] as usize + 1)) as u8];
        let _ = r.push(&x[..]);
        let hp = collect_heap(|cb| r.heap_size(cb));
        vassert!(hp.iter().all(|p| p.0 <= p.1), "VF:heap.codec.used_exceeds_capacity");
        let used: usize = hp.iter().map(|p| p.0).sum();
        vassert!(used >= last, "VF:heap.codec.used_decreased_on_push");
        vassert!(used >= 4 * (i + 1), "VF:heap.codec.used_below_payload");
        last = used;
    }
    let before = collect_heap(|cb| r.heap_size(cb));
    r.clear();
    let after = collect_heap(|cb| r.heap_size(cb));
    vassert!(after.len() == before.len() && before.iter().zip(after.iter()).all(|(b, a)| a.1 >= b.1), "VF:heap.codec.capacity_shrank_on_clear");
}
fn pre_heap_codec(v: &[u64]) -> bool {
    v[0] < 3 && v[1] < 3
}
fn doms_heap_codec() -> Vec<Vec<u64>> {
    vec![range(3), range(3)]
}

pub fn harnesses() -> Vec<H> {
    vec![
        H { name: "huffman_quick", props: &["C06", "C01", "C02", "C08", "C10"], nargs: 6, pre: pre_huff, doms: doms_huff_quick, run: run_huff, panic_ok: false,
            bound: "16 frequency profiles (1..4 symbols with counts 1..4, Fibonacci 10/16/21 symbols, 257/600 equiprobable u16) x all pairs of 12 item shapes (empty .. 24 symbols; every start/end bit offset; 0,1,2+ whole bytes) + third item in {empty, 8 symbols} x {one source; two generations; two sources over the same alphabet with different count shapes; three sources raw/empty/coded} x symbol outside the statistics; clear of a coded container before its first symbol; code books built from no statistics (zero sources, empty sources) store and return the empty item", kani: false },
        H { name: "heap_codec", props: &["C18"], nargs: 2, pre: pre_heap_codec, doms: doms_heap_codec, run: run_heap_codec, panic_ok: false,
            bound: "CodecRegion<DictionaryCodec>: 40 / 1100 / 2300 distinct 4-byte items: after every push used <= capacity per pair, summed used bytes never decrease and are at least the payload; after clear no capacity shrinks", kani: false },
        H { name: "flatstack_ctor", props: &["C10", "C03"], nargs: 5, pre: pre_fs_ctor, doms: doms_fs_ctor, run: run_fs_ctor, panic_ok: false,
            bound: "FlatStack over HuffmanContainer<u8>, CodecRegion<DictionaryCodec>, StringRegion<CodecRegion<..>>, OwnedRegion<u8>: with_capacity(0 / 3 / 100) and FromIterator versus default() + copy for three items of a 6-value pool (incl. the empty item): same acceptance, same length, same reads", kani: false },
        H { name: "coded_life", props: &["C08", "C10"], nargs: 7, pre: pre_coded_life, doms: doms_coded_life, run: run_coded_life, panic_ok: true,
            bound: "9 compositions with a coded leaf (Option / Slice / String / ConsecutiveIndexPairs / CollapseSequence / Result (both sides) over CodecRegion<DictionaryCodec>; Option / Slice over HuffmanContainer<u8>; Result of both): history of 3 pool values (incl. tag-like literals, the empty string, repeated strings), then clear (two cycles) / clear of a merged region / reserve_regions on an empty or one-item region (dictionary compositions only), then 4 further pushes compared with a default (or never-reserving) twin: same acceptance, same reads", kani: false },
        H { name: "huffman_full", props: &["C06"], nargs: 6, pre: pre_huff, doms: doms_huff, run: run_huff, panic_ok: false,
            bound: "all 340 profiles over alphabets of 1..4 symbols with counts 1..4, Fibonacci-skewed 10..21 symbols (codes to 20 bits), 257/300/600 equiprobable u16 symbols x all pairs of 12 item shapes x third item in {empty, 8, 17 symbols} x 1-2 merge generations x outsider symbol (thorough tier)", kani: false },
        H { name: "columns_coded_merge", props: &["C10", "C08"], nargs: 2, pre: pre_ccm, doms: doms_ccm, run: run_ccm, panic_ok: false,
            bound: "ColumnsRegion<HuffmanContainer<u8>> and ColumnsRegion<CodecRegion<DictionaryCodec>>: merge_regions over a one-column and a two-column source in the orders [narrow, wide], [wide, narrow], [narrow, wide, narrow], [wide]; rows covered by the sources' statistics must be accepted and read back; dictionary columns: reserve_regions from the same source sets on an empty / one-row target, then four rows (incl. literals starting with bytes 0 and 1) compared with a twin that never reserved; clear of a populated coded-columns region, then rows compared with a default twin over two clear/refill cycles", kani: false },
        H { name: "huffman_after_clear", props: &["C06", "C08"], nargs: 2, pre: pre_hclear, doms: doms_hclear, run: run_hclear, panic_ok: false,
            bound: "HuffmanContainer<u16>: 50 occurrences of a foreign symbol pushed into a raw or coded container, clear, then exactly one of 7 profiles, merge: code cost equals the reference for that profile alone and the foreign symbol is refused", kani: false },
        H { name: "codec_clone", props: &["C09"], nargs: 4, pre: pre_hclone, doms: doms_hclone, run: run_hclone, panic_ok: false,
            bound: "HuffmanContainer<u16>: 8 profiles x source state (raw empty / raw with items / coded without pushes / coded with items) x clone or clone_from into a raw destination, a coded destination with a foreign code book, or a coded destination whose book has the same shape but the reversed frequency ranking, each holding items; identical further push, independence; SliceRegion<HuffmanContainer> cloned / clone_from'd into destinations holding 0, 2, 4, 6 items", kani: false },
        H { name: "coded_composites_merge", props: &["C10", "C01", "C08"], nargs: 2, pre: pre_ccomp, doms: doms_ccomp, run: run_ccomp, panic_ok: false,
            bound: "TupleABRegion<HuffmanContainer<u8>, CodecRegion<DictionaryCodec>> and ResultRegion<..>: merge_regions over 1 or 2 source regions, then rows covered by the passed sources' statistics must be accepted and read back; clear of a populated / merged composite, then rows with unseen symbols and tag-like literals compared with a default twin", kani: false },
        H { name: "huffman_wrapped", props: &["C14", "C15"], nargs: 4, pre: pre_wrapped, doms: doms_wrapped, run: run_wrapped, panic_ok: false,
            bound: "Wrapped items, raw versus Huffman-encoded under two different code books, 9 profiles (incl. Fibonacci-skewed ones with 10 and 16 symbols: codes longer than a byte) x all pairs of 12 item shapes x 4 clone_onto targets: ==, partial_cmp, cmp against the owned vectors; into_owned / clone_onto / borrow_as; region-to-region push", kani: false },
        H { name: "huffman_forms", props: &["C20", "C10", "C06"], nargs: 2, pre: pre_hforms, doms: doms_hforms, run: run_hforms, panic_ok: false,
            bound: "HuffmanContainer<u16> raw and coded, 4 profiles: [B;N], &[B;N], Vec<B>, &Vec<B>, raw and encoded read items of another container versus &[B] on twins in the same state (indices, reads), and the next generation merged from each twin (index and read of a probe)", kani: false },
        H { name: "dictionary_quick", props: &["C07", "C01", "C02", "C04", "C08", "C10"], nargs: 7, pre: pre_dict, doms: doms_dict_quick, run: run_dict, panic_ok: false,
            bound: "CodecRegion<DictionaryCodec>: 10 x 2 training sets (incl. three distinct strings pushed once each and a single push) over 1..2 source regions; 20 probes (empty, dictionary entries, prefixes/extensions, first byte an assigned tag, eight one-byte strings) x 3; second merge generation; reserve_regions on the merged region and on a source (twice), earlier reads unchanged and a further push like on a twin; clear; every push refused or read back exactly, heavy hitters cost 1 byte", kani: false },
        H { name: "dictionary_full", props: &["C07"], nargs: 7, pre: pre_dict, doms: doms_dict, run: run_dict, panic_ok: false,
            bound: "CodecRegion<DictionaryCodec>: 10 x 3 training sets (incl. three distinct strings pushed once each and a single push) over 1..2 source regions; probes: all 256 one-byte strings, dictionary entries, their prefixes/extensions, strings whose first byte is an assigned tag, the empty string (268 probes x 5); second merge generation; clear; every push refused or read back exactly, heavy hitters cost 1 byte", kani: false },
        H { name: "dictionary_many", props: &["C07", "C01", "C10"], nargs: 4, pre: pre_many, doms: doms_many, run: run_many, panic_ok: false,
            bound: "1023 / 1024 / 1500 / 2600 distinct strings plus a heavy hitter at 1/2, 1/3, 1/4 of the pushes that sorts before / between / after them (crosses MisraGries::tidy), one or two source regions, merged, then probed; and 3-4 source regions with 257/260/300 private strings (x3) each plus a shared string (x2) that dominates only their union; three generations with 260-400 distinct values plus one value that is a dictionary hit in the second generation and has no tag in the third: everything a source stored is accepted and read back; two sources where the rarest string of one is the dominant string of the other, merged in both orders", kani: false },
    ]
}
