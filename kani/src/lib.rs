//! Harness bodies shared between Kani (symbolic inputs), the native bounded-exhaustive search and the native replay.
//!
//! Every harness takes a slice of `u64` arguments.  `pre` restricts them (the *stated bound*), `doms` lists the values the
//! native search enumerates per argument, `run` is the body.  Every property assertion carries a unique marker message
//! starting with `VF:`; only those are verdicts.  A panic raised by the code under test is a violation too, unless the
//! harness declares `panic_ok` (fail-stop behaviour is what the property demands there).
#![allow(clippy::all)]

/// Property assertion.  While the native search checks one property, the assertions whose marker does not concern that
/// property (`VK_IGNORE` / `VK_ONLY`, longest matching prefix decides — see vf/bounded.py) do not fail, so
/// that an assertion belonging to another property cannot end the run before this property's own assertions are reached.
#[cfg(not(kani))]
#[macro_export]
macro_rules! vassert {
    ($c:expr, $m:literal) => {{
        // (decided once per assertion site)
        static IGNORED: std::sync::OnceLock<bool> = std::sync::OnceLock::new();
        // (the condition is always evaluated — some have effects, e.g. a checked push — only its verdict is dropped)
        let holds: bool = $c;
        if !*IGNORED.get_or_init(|| $crate::marker_ignored($m)) {
            assert!(holds, $m)
        }
    }};
}
#[cfg(kani)]
#[macro_export]
macro_rules! vassert {
    ($c:expr, $m:literal) => {
        assert!($c, $m)
    };
}

#[cfg(not(kani))]
pub fn marker_ignored(m: &str) -> bool {
    use std::sync::OnceLock;
    static F: OnceLock<(Vec<String>, Vec<String>)> = OnceLock::new();
    let (ignore, only) = F.get_or_init(|| {
        let get = |k: &str| std::env::var(k).unwrap_or_default().split('|').filter(|s| !s.is_empty()).map(|s| s.to_string()).collect::<Vec<_>>();
        (get("VK_IGNORE"), get("VK_ONLY"))
    });
    if ignore.is_empty() {
        return false;
    }
    let ig = ignore.iter().filter(|k| m.starts_with(k.as_str())).map(|k| k.len()).max();
    let on = only.iter().filter(|k| m.starts_with(k.as_str())).map(|k| k.len()).max();
    match ig {
        Some(i) => on.map_or(true, |o| o < i),
        None => false,
    }
}
#[cfg(kani)]
pub fn marker_ignored(_m: &str) -> bool {
    false
}

/// Harness precondition.
#[macro_export]
macro_rules! vassume {
    ($c:expr) => {{
        #[cfg(kani)]
        kani::assume($c);
        #[cfg(not(kani))]
        if !($c) {
            println!("REPLAY: precondition of the harness not met");
            std::process::exit(3);
        }
    }};
}

/// Reachability witness (vacuity guard for the harness's assumptions).
#[macro_export]
macro_rules! vcover {
    ($c:expr, $m:literal) => {{
        #[cfg(kani)]
        kani::cover!($c, $m);
    }};
}

/// Harnesses that serve several properties announce which part they are in, so that a panic raised by the code under
/// test is attributed to that part's marker (`<section>.panic: <message>`) instead of to every property served.
pub mod sect {
    use std::sync::Mutex;
    pub static CUR: Mutex<&'static str> = Mutex::new("");
}
#[cfg(not(kani))]
pub fn section(s: &'static str) {
    *sect::CUR.lock().unwrap_or_else(|e| e.into_inner()) = s;
}
#[cfg(kani)]
pub fn section(_s: &'static str) {}
pub fn current_section() -> &'static str {
    *sect::CUR.lock().unwrap_or_else(|e| e.into_inner())
}

pub struct H {
    pub name: &'static str,
    /// properties this harness is a bounded stand-in for
    pub props: &'static [&'static str],
    pub nargs: usize,
    pub pre: fn(&[u64]) -> bool,
    pub doms: fn() -> Vec<Vec<u64>>,
    pub run: fn(&[u64]),
    pub panic_ok: bool,
    /// the stated bound, in words
    pub bound: &'static str,
    /// has a `#[kani::proof]` twin
    pub kani: bool,
}

/// Declares the Kani twin of a registered harness: N symbolic u64 arguments constrained by `pre`.
#[macro_export]
macro_rules! kani_twin {
    ($name:ident, $n:expr, $pre:path, $run:path, $unwind:expr) => {
        #[cfg(kani)]
        #[kani::proof]
        #[kani::unwind($unwind)]
        fn $name() {
            let v: [u64; $n] = kani::any();
            kani::assume($pre(&v));
            $run(&v);
        }
    };
}

pub mod util;
pub mod alloc_count;
pub mod stride;
pub mod slice;
pub mod regions;
pub mod life;
pub mod more;
pub mod codecs;

pub fn registry() -> Vec<H> {
    let mut v = Vec::new();
    v.extend(stride::harnesses());
    v.extend(slice::harnesses());
    v.extend(regions::harnesses());
    v.extend(life::harnesses());
    v.extend(life::harnesses_long());
    v.extend(life::harnesses_alloc());
    v.extend(life::harnesses_serde());
    v.extend(more::harnesses());
    v.extend(more::harnesses_long());
    v.extend(codecs::harnesses());
    v
}

pub fn find(name: &str) -> Option<H> {
    registry().into_iter().find(|h| h.name == name)
}

/// Boundary alphabet used by the native search for full-width arguments.
pub fn boundary() -> Vec<u64> {
    let mut v = vec![0u64, 1, 2, 3, 4, 5, 7, 8, 255, 256, 65536];
    for p in [31u32, 32, 62, 63] {
        v.push((1u64 << p) - 1);
        v.push(1u64 << p);
        v.push((1u64 << p) + 1);
    }
    v.push(u64::MAX - 1);
    v.push(u64::MAX);
    v
}
