//! Harness bodies shared between Kani (symbolic inputs) and the native replay binary (concrete inputs).
//!
//! Every property assertion carries a unique marker message starting with `VF:`; only those are interpreted
//! as verdicts by the runner.  Any other failed check located in the crate under test (overflow, index, ...)
//! is reported as "panic in code under test" where the property forbids panics.
#![allow(clippy::all)]

/// Property assertion.
#[macro_export]
macro_rules! vassert {
    ($c:expr, $m:literal) => {
        assert!($c, $m)
    };
}

/// Harness precondition.
#[macro_export]
macro_rules! vassume {
    ($c:expr) => {{
        #[cfg(kani)]
        kani::assume($c);
        #[cfg(not(kani))]
        if !($c) {
            println!("REPLAY: precondition of the harness not met");
            std::process::exit(3);
        }
    }};
}

/// Reachability witness (vacuity guard for the harness's assumptions).
#[macro_export]
macro_rules! vcover {
    ($c:expr, $m:literal) => {{
        #[cfg(kani)]
        kani::cover!($c, $m);
    }};
}

pub mod slice;
pub mod stride;

/// Boundary alphabet used by the native counterexample search.
pub fn boundary() -> Vec<u64> {
    let mut v = vec![0u64, 1, 2, 3, 4, 5, 7, 8, 255, 256, 65536];
    for p in [31u32, 32, 62, 63] {
        v.push((1u64 << p) - 1);
        v.push(1u64 << p);
        v.push((1u64 << p) + 1);
    }
    v.push(u64::MAX - 1);
    v.push(u64::MAX);
    v
}

/// Replay entry: run harness `name` on concrete inputs (in the order of the harness's `kani::any()` calls).
pub fn dispatch(name: &str, v: &[u64]) -> bool {
    match name {
        "stride_push_contract" if v.len() == 5 => stride::check_push(v[0] as u8, v[1] as usize, v[2] as usize, v[3] as usize, v[4] as usize),
        "stride_index_contract" if v.len() == 5 => stride::check_index(v[0] as u8, v[1] as usize, v[2] as usize, v[3] as usize, v[4] as usize),
        "slice_get_oob" if v.len() == 4 => slice::check_get(v[0] as usize, v[1] as usize, v[2] as usize, v[3] as usize),
        "slice_get_owned_oob" if v.len() == 2 => slice::check_get_owned(v[0] as usize, v[1] as usize),
        _ => return false,
    }
    true
}

/// Harnesses in which a panic raised by the code under test is the *required* behaviour for some inputs (fail-stop
/// accessors); only `VF:` marker assertions are verdicts there.
pub fn panic_allowed(name: &str) -> bool {
    matches!(name, "slice_get_oob" | "slice_get_owned_oob")
}

/// Harness precondition on concrete inputs (so that the search does not count rejected inputs).
pub fn pre(name: &str, v: &[u64]) -> bool {
    match name {
        "stride_push_contract" => stride::pre_push(v[0] as u8, v[1] as usize, v[2] as usize, v[3] as usize),
        "stride_index_contract" => stride::pre_index(v[0] as u8, v[1] as usize, v[2] as usize, v[3] as usize, v[4] as usize),
        "slice_get_oob" => v[0] <= 3 && v[1] <= 3 && v[2] < 2,
        "slice_get_owned_oob" => v[0] <= 3,
        _ => true,
    }
}

/// Per-argument search domains.
pub fn domains(name: &str) -> Option<Vec<Vec<u64>>> {
    let b = boundary();
    match name {
        "stride_push_contract" | "stride_index_contract" => Some(vec![vec![0, 1, 2, 3], b.clone(), b.clone(), b.clone(), b]),
        "slice_get_oob" => Some(vec![vec![0, 1, 2, 3], vec![0, 1, 2, 3], vec![0, 1], b]),
        "slice_get_owned_oob" => Some(vec![vec![0, 1, 2, 3], b]),
        _ => None,
    }
}
