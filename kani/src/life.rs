//! Bounded stand-ins for lifecycle operations outside the Verus dialect: clear (C08), clone / clone_from (C09),
//! reserve_* / merge_* (C10), allocation discipline after pre-sizing (C17 clause 1), heap_size (C18).
use crate::util::*;
use crate::H;
use flatcontainer::impls::deduplicate::{CollapseSequence, ConsecutiveIndexPairs};
use flatcontainer::impls::index::IndexOptimized;
use flatcontainer::impls::tuple::TupleABRegion;
use flatcontainer::{ColumnsRegion, FlatStack, MirrorRegion, OptionRegion, OwnedRegion, Push, Region, ReserveItems, ResultRegion, SliceRegion, StringRegion};

/// A region type together with a way to push the k-th value of a small value pool and to compare a read item with it.
pub trait Subject: Region + Clone {
    const NAME: &'static str;
    /// Number of distinct pool values.
    const POOL: u64;
    fn put(&mut self, k: u64) -> Self::Index;
    fn same(&self, i: Self::Index, k: u64) -> bool;
    /// Canonical byte encoding of the item read at `i` (for comparing two regions with each other, not with the pool).
    fn dump(&self, i: Self::Index) -> Vec<u8>;
    /// payload bytes + index entries a pushed pool value must account for at least (C18)
    fn payload(k: u64) -> usize;
    fn reserve_pool(&mut self, ks: &[u64]);
}

const BYTES: [&[u8]; 4] = [&[], &[1], &[2, 3, 4], &[255, 0]];

impl Subject for OwnedRegion<u8> {
    const NAME: &'static str = "OwnedRegion<u8>";
    const POOL: u64 = 4;
    fn put(&mut self, k: u64) -> Self::Index {
        self.push(BYTES[k as usize])
    }
    fn same(&self, i: Self::Index, k: u64) -> bool {
        self.index(i) == BYTES[k as usize]
    }
    fn dump(&self, i: Self::Index) -> Vec<u8> {
        self.index(i).to_vec()
    }
    fn payload(k: u64) -> usize {
        BYTES[k as usize].len()
    }
    fn reserve_pool(&mut self, ks: &[u64]) {
        self.reserve_items(ks.iter().map(|k| BYTES[*k as usize]));
    }
}

impl Subject for StringRegion {
    const NAME: &'static str = "StringRegion";
    const POOL: u64 = 6;
    fn put(&mut self, k: u64) -> Self::Index {
        self.push(string(k))
    }
    fn same(&self, i: Self::Index, k: u64) -> bool {
        self.index(i) == string(k)
    }
    fn dump(&self, i: Self::Index) -> Vec<u8> {
        self.index(i).as_bytes().to_vec()
    }
    fn payload(k: u64) -> usize {
        string(k).len()
    }
    fn reserve_pool(&mut self, ks: &[u64]) {
        self.reserve_items(ks.iter().map(|k| string(*k)));
    }
}

impl Subject for SliceRegion<MirrorRegion<u8>> {
    const NAME: &'static str = "SliceRegion<MirrorRegion<u8>>";
    const POOL: u64 = 4;
    fn put(&mut self, k: u64) -> Self::Index {
        self.push(BYTES[k as usize])
    }
    fn same(&self, i: Self::Index, k: u64) -> bool {
        self.index(i).iter().eq(BYTES[k as usize].iter().copied())
    }
    fn dump(&self, i: Self::Index) -> Vec<u8> {
        self.index(i).iter().collect()
    }
    fn payload(k: u64) -> usize {
        BYTES[k as usize].len()
    }
    fn reserve_pool(&mut self, ks: &[u64]) {
        self.reserve_items(ks.iter().map(|k| BYTES[*k as usize]));
    }
}

const NESTED: [&[&[u8]]; 4] = [&[], &[&[]], &[&[1, 2], &[3]], &[&[9], &[], &[8, 7, 6]]];

impl Subject for SliceRegion<OwnedRegion<u8>> {
    const NAME: &'static str = "SliceRegion<OwnedRegion<u8>>";
    const POOL: u64 = 4;
    fn put(&mut self, k: u64) -> Self::Index {
        self.push(NESTED[k as usize])
    }
    fn same(&self, i: Self::Index, k: u64) -> bool {
        let it = self.index(i);
        it.len() == NESTED[k as usize].len() && it.iter().zip(NESTED[k as usize].iter()).all(|(a, b)| a == *b)
    }
    fn dump(&self, i: Self::Index) -> Vec<u8> {
        self.index(i).iter().flat_map(|x| std::iter::once(x.len() as u8).chain(x.iter().copied())).collect()
    }
    fn payload(k: u64) -> usize {
        NESTED[k as usize].iter().map(|x| x.len()).sum::<usize>() + NESTED[k as usize].len() * std::mem::size_of::<(usize, usize)>()
    }
    fn reserve_pool(&mut self, ks: &[u64]) {
        let items: Vec<Vec<Vec<u8>>> = ks.iter().map(|k| NESTED[*k as usize].iter().map(|x| x.to_vec()).collect()).collect();
        self.reserve_items(items.iter());
    }
}

const OPTS: [Option<&[u8]>; 4] = [None, Some(&[]), Some(&[5, 6]), Some(&[7])];

impl Subject for OptionRegion<OwnedRegion<u8>> {
    const NAME: &'static str = "OptionRegion<OwnedRegion<u8>>";
    const POOL: u64 = 4;
    fn put(&mut self, k: u64) -> Self::Index {
        self.push(OPTS[k as usize])
    }
    fn same(&self, i: Self::Index, k: u64) -> bool {
        self.index(i) == OPTS[k as usize]
    }
    fn dump(&self, i: Self::Index) -> Vec<u8> {
        match self.index(i) { None => vec![0], Some(x) => std::iter::once(1u8).chain(x.iter().copied()).collect() }
    }
    fn payload(k: u64) -> usize {
        OPTS[k as usize].map(|x| x.len()).unwrap_or(0)
    }
    fn reserve_pool(&mut self, ks: &[u64]) {
        self.reserve_items(ks.iter().map(|k| OPTS[*k as usize]));
    }
}

const RESS: [Result<&[u8], &[u8]>; 4] = [Ok(&[1, 2, 3]), Err(&[4]), Ok(&[]), Err(&[5, 6])];

impl Subject for ResultRegion<OwnedRegion<u8>, OwnedRegion<u8>> {
    const NAME: &'static str = "ResultRegion<OwnedRegion<u8>, OwnedRegion<u8>>";
    const POOL: u64 = 4;
    fn put(&mut self, k: u64) -> Self::Index {
        self.push(RESS[k as usize])
    }
    fn same(&self, i: Self::Index, k: u64) -> bool {
        self.index(i) == RESS[k as usize]
    }
    fn dump(&self, i: Self::Index) -> Vec<u8> {
        match self.index(i) { Ok(x) => std::iter::once(0u8).chain(x.iter().copied()).collect(), Err(x) => std::iter::once(1u8).chain(x.iter().copied()).collect() }
    }
    fn payload(k: u64) -> usize {
        match RESS[k as usize] {
            Ok(x) | Err(x) => x.len(),
        }
    }
    fn reserve_pool(&mut self, ks: &[u64]) {
        self.reserve_items(ks.iter().map(|k| RESS[*k as usize]));
    }
}

const TUPS: [(&[u8], &str); 4] = [(&[], ""), (&[1], "é"), (&[2, 3], "ab"), (&[4, 5, 6], "𝄞")];

impl Subject for TupleABRegion<OwnedRegion<u8>, StringRegion> {
    const NAME: &'static str = "TupleABRegion<OwnedRegion<u8>, StringRegion>";
    const POOL: u64 = 4;
    fn put(&mut self, k: u64) -> Self::Index {
        self.push(TUPS[k as usize])
    }
    fn same(&self, i: Self::Index, k: u64) -> bool {
        self.index(i) == TUPS[k as usize]
    }
    fn dump(&self, i: Self::Index) -> Vec<u8> {
        { let (a, b) = self.index(i); std::iter::once(a.len() as u8).chain(a.iter().copied()).chain(b.as_bytes().iter().copied()).collect() }
    }
    fn payload(k: u64) -> usize {
        TUPS[k as usize].0.len() + TUPS[k as usize].1.len()
    }
    fn reserve_pool(&mut self, ks: &[u64]) {
        let items: Vec<(&[u8], &str)> = ks.iter().map(|k| TUPS[*k as usize]).collect();
        self.reserve_items(items.into_iter());
    }
}

impl Subject for Vec<u8> {
    const NAME: &'static str = "Vec<u8>";
    const POOL: u64 = 4;
    fn put(&mut self, k: u64) -> Self::Index {
        <Self as Push<u8>>::push(self, 10 + k as u8)
    }
    fn same(&self, i: Self::Index, k: u64) -> bool {
        *self.index(i) == 10 + k as u8
    }
    fn dump(&self, i: Self::Index) -> Vec<u8> {
        vec![*self.index(i)]
    }
    fn payload(_k: u64) -> usize {
        1
    }
    fn reserve_pool(&mut self, ks: &[u64]) {
        self.reserve_items(ks.iter());
    }
}

const ROWS: [&[u8]; 4] = [&[], &[1], &[2, 3, 4], &[5, 6]];

impl Subject for ColumnsRegion<MirrorRegion<u8>> {
    const NAME: &'static str = "ColumnsRegion<MirrorRegion<u8>>";
    const POOL: u64 = 4;
    fn put(&mut self, k: u64) -> Self::Index {
        self.push(ROWS[k as usize])
    }
    fn same(&self, i: Self::Index, k: u64) -> bool {
        let it = self.index(i);
        it.len() == ROWS[k as usize].len() && it.iter().eq(ROWS[k as usize].iter().copied())
    }
    fn dump(&self, i: Self::Index) -> Vec<u8> {
        self.index(i).iter().collect()
    }
    fn payload(k: u64) -> usize {
        ROWS[k as usize].len()
    }
    fn reserve_pool(&mut self, _ks: &[u64]) {}
}

const SROWS: [&[&str]; 4] = [&[], &["a"], &["bc", "é", "𝄞"], &["", "zz"]];

impl Subject for ColumnsRegion<StringRegion> {
    const NAME: &'static str = "ColumnsRegion<StringRegion>";
    const POOL: u64 = 4;
    fn put(&mut self, k: u64) -> Self::Index {
        self.push(SROWS[k as usize])
    }
    fn same(&self, i: Self::Index, k: u64) -> bool {
        let it = self.index(i);
        it.len() == SROWS[k as usize].len() && it.iter().zip(SROWS[k as usize].iter()).all(|(a, b)| a == *b)
    }
    fn dump(&self, i: Self::Index) -> Vec<u8> {
        self.index(i).iter().flat_map(|x| std::iter::once(x.len() as u8).chain(x.as_bytes().iter().copied())).collect()
    }
    fn payload(k: u64) -> usize {
        SROWS[k as usize].iter().map(|x| x.len()).sum()
    }
    fn reserve_pool(&mut self, _ks: &[u64]) {}
}

impl Subject for ConsecutiveIndexPairs<OwnedRegion<u8>> {
    const NAME: &'static str = "ConsecutiveIndexPairs<OwnedRegion<u8>>";
    const POOL: u64 = 4;
    fn put(&mut self, k: u64) -> Self::Index {
        self.push(BYTES[k as usize])
    }
    fn same(&self, i: Self::Index, k: u64) -> bool {
        self.index(i) == BYTES[k as usize]
    }
    fn dump(&self, i: Self::Index) -> Vec<u8> {
        self.index(i).to_vec()
    }
    fn payload(k: u64) -> usize {
        BYTES[k as usize].len()
    }
    fn reserve_pool(&mut self, ks: &[u64]) {
        self.reserve_items(ks.iter().map(|k| BYTES[*k as usize]));
    }
}

impl Subject for CollapseSequence<ConsecutiveIndexPairs<StringRegion>> {
    const NAME: &'static str = "CollapseSequence<ConsecutiveIndexPairs<StringRegion>>";
    const POOL: u64 = 6;
    fn put(&mut self, k: u64) -> Self::Index {
        self.push(string(k))
    }
    fn same(&self, i: Self::Index, k: u64) -> bool {
        self.index(i) == string(k)
    }
    fn dump(&self, i: Self::Index) -> Vec<u8> {
        self.index(i).as_bytes().to_vec()
    }
    fn payload(_k: u64) -> usize {
        0 // deduplicated: no per-push lower bound
    }
    fn reserve_pool(&mut self, _ks: &[u64]) {}
}

impl Subject for SliceRegion<ConsecutiveIndexPairs<StringRegion>, IndexOptimized> {
    const NAME: &'static str = "SliceRegion<ConsecutiveIndexPairs<StringRegion>, IndexOptimized>";
    const POOL: u64 = 4;
    fn put(&mut self, k: u64) -> Self::Index {
        let item: Vec<&str> = (0..k).map(|j| string(j + k)).collect();
        self.push(item)
    }
    fn same(&self, i: Self::Index, k: u64) -> bool {
        let it = self.index(i);
        it.len() == k as usize && it.iter().zip(0..k).all(|(a, j)| a == string(j + k))
    }
    fn dump(&self, i: Self::Index) -> Vec<u8> {
        self.index(i).iter().flat_map(|x| std::iter::once(x.len() as u8).chain(x.as_bytes().iter().copied())).collect()
    }
    fn payload(k: u64) -> usize {
        (0..k).map(|j| string(j + k).len()).sum()
    }
    fn reserve_pool(&mut self, _ks: &[u64]) {}
}

// Compositions in which items exist while no storage reports a used byte (empty strings under consecutive pairs,
// zero-sized elements): "nothing used" must never be mistaken for "nothing stored".
const OPTSTR: [Option<&str>; 4] = [None, Some(""), Some("a"), Some("é𝄞")];

impl Subject for OptionRegion<ConsecutiveIndexPairs<StringRegion>> {
    const NAME: &'static str = "OptionRegion<ConsecutiveIndexPairs<StringRegion>>";
    const POOL: u64 = 4;
    fn put(&mut self, k: u64) -> Self::Index {
        self.push(OPTSTR[k as usize])
    }
    fn same(&self, i: Self::Index, k: u64) -> bool {
        self.index(i) == OPTSTR[k as usize]
    }
    fn dump(&self, i: Self::Index) -> Vec<u8> {
        match self.index(i) { None => vec![0], Some(x) => std::iter::once(1u8).chain(x.as_bytes().iter().copied()).collect() }
    }
    fn payload(k: u64) -> usize {
        OPTSTR[k as usize].map(|x| x.len()).unwrap_or(0)
    }
    fn reserve_pool(&mut self, ks: &[u64]) {
        self.reserve_items(ks.iter().map(|k| OPTSTR[*k as usize]));
    }
}

const STRS4: [&str; 4] = ["", "a", "é𝄞", "hello"];

impl Subject for StringRegion<ConsecutiveIndexPairs<OwnedRegion<u8>>> {
    const NAME: &'static str = "StringRegion<ConsecutiveIndexPairs<OwnedRegion<u8>>>";
    const POOL: u64 = 4;
    fn put(&mut self, k: u64) -> Self::Index {
        self.push(STRS4[k as usize])
    }
    fn same(&self, i: Self::Index, k: u64) -> bool {
        self.index(i) == STRS4[k as usize]
    }
    fn dump(&self, i: Self::Index) -> Vec<u8> {
        self.index(i).as_bytes().to_vec()
    }
    fn payload(k: u64) -> usize {
        STRS4[k as usize].len()
    }
    fn reserve_pool(&mut self, ks: &[u64]) {
        self.reserve_items(ks.iter().map(|k| STRS4[*k as usize]));
    }
}

const UNITS: [&[()]; 4] = [&[], &[()], &[(), ()], &[(), (), (), (), ()]];

impl Subject for OwnedRegion<()> {
    const NAME: &'static str = "OwnedRegion<()>";
    const POOL: u64 = 4;
    fn put(&mut self, k: u64) -> Self::Index {
        self.push(UNITS[k as usize])
    }
    fn same(&self, i: Self::Index, k: u64) -> bool {
        self.index(i).len() == UNITS[k as usize].len()
    }
    fn dump(&self, i: Self::Index) -> Vec<u8> {
        vec![self.index(i).len() as u8]
    }
    fn payload(_k: u64) -> usize {
        0
    }
    fn reserve_pool(&mut self, ks: &[u64]) {
        self.reserve_items(ks.iter().map(|k| UNITS[*k as usize]));
    }
}

impl Subject for Vec<()> {
    const NAME: &'static str = "Vec<()>";
    const POOL: u64 = 2;
    fn put(&mut self, _k: u64) -> Self::Index {
        <Self as Push<()>>::push(self, ())
    }
    fn same(&self, i: Self::Index, _k: u64) -> bool {
        *self.index(i) == ()
    }
    fn dump(&self, i: Self::Index) -> Vec<u8> {
        let _ = self.index(i);
        vec![]
    }
    fn payload(_k: u64) -> usize {
        0
    }
    fn reserve_pool(&mut self, ks: &[u64]) {
        self.reserve_items(ks.iter());
    }
}

/// Read through the *reference* region of a twin comparison.  If the reference itself cannot be read (because some
/// other property is broken in the tree under test), the comparison is not this property's business: `None`.
fn ref_dump<S: Subject>(r: &S, i: S::Index) -> Option<Vec<u8>>
where
    S::Index: Copy,
{
    std::panic::catch_unwind(std::panic::AssertUnwindSafe(|| r.dump(i))).ok()
}

/// Operation on the region under comparison: a panic there (while the reference did not panic) is a difference.
fn try_put<S: Subject>(r: &mut S, k: u64) -> Option<S::Index> {
    std::panic::catch_unwind(std::panic::AssertUnwindSafe(|| r.put(k))).ok()
}
fn try_dump<S: Subject>(r: &S, i: S::Index) -> Option<Vec<u8>>
where
    S::Index: Copy,
{
    std::panic::catch_unwind(std::panic::AssertUnwindSafe(|| r.dump(i))).ok()
}

/// The operation under test itself must not panic.
fn must<T>(f: impl FnOnce() -> T) -> Option<T> {
    std::panic::catch_unwind(std::panic::AssertUnwindSafe(f)).ok()
}

fn caps<R: Region>(r: &R) -> Vec<usize> {
    collect_heap(|cb| r.heap_size(cb)).iter().map(|p| p.1).collect()
}
fn heap<R: Region>(r: &R) -> Vec<(usize, usize)> {
    collect_heap(|cb| r.heap_size(cb))
}

// ---------------------------------------------------------------------------------------------------- C08 clear twin
/// `A = default; h1; clear; h2`  versus  `B = default; h2`: same indices, same reads, step by step; two cycles.
fn clear_twin<S: Subject>(v: &[u64])
where
    S::Index: PartialEq + Copy,
{
    let h1 = [v[1] % S::POOL, v[2] % S::POOL, v[3] % S::POOL];
    let h2 = [v[4] % S::POOL, v[5] % S::POOL];
    let mut a = S::default();
    for cycle in 0..2 {
        for k in h1.iter().take(v[6] as usize + cycle) {
            if try_put(&mut a, *k).is_none() {
                return; // the history itself fails on this tree: not this property's business
            }
        }
        vassert!(must(|| a.clear()).is_some(), "VF:clear.panicked");
        let mut b = S::default();
        let mut ia = Vec::new();
        let mut ib = Vec::new();
        for k in h2 {
            let y = match try_put(&mut b, k) {
                Some(y) => y,
                None => return,
            };
            let x = try_put(&mut a, k);
            vassert!(x.is_some(), "VF:clear.push_panics_unlike_fresh");
            let x = x.unwrap();
            vassert!(x == y, "VF:clear.index_differs_from_fresh");
            ia.push(x);
            ib.push(y);
            for (i, j) in ia.iter().zip(&ib) {
                if let Some(want) = ref_dump(&b, *j) {
                    vassert!(try_dump(&a, *i) == Some(want), "VF:clear.read_differs_from_fresh");
                }
            }
        }
        let ua: Vec<usize> = heap(&a).iter().map(|p| p.0).collect();
        let ub: Vec<usize> = heap(&b).iter().map(|p| p.0).collect();
        if !S::NAME.starts_with("ColumnsRegion") {
            vassert!(ua == ub, "VF:clear.used_bytes_differ_from_fresh");
        }
    }
}

// ---------------------------------------------------------------------------------------------------- C09 clone twin
fn clone_twin<S: Subject>(v: &[u64])
where
    S::Index: PartialEq + Copy,
{
    let h = [v[1] % S::POOL, v[2] % S::POOL];
    let d = [v[3] % S::POOL, v[4] % S::POOL, v[5] % S::POOL];
    let mut src = S::default();
    let mut idx = Vec::new();
    for k in h {
        match try_put(&mut src, k) {
            Some(i) => idx.push(i),
            None => return,
        }
    }
    let mut c = if v[6] % 2 == 0 {
        let c = must(|| src.clone());
        vassert!(c.is_some(), "VF:clone.panicked");
        c.unwrap()
    } else {
        // destination pre-filled by an unrelated history (shorter, equal or longer)
        let mut dst = S::default();
        for k in d.iter().take((v[6] / 2) as usize) {
            if try_put(&mut dst, *k).is_none() {
                return;
            }
        }
        vassert!(must(|| dst.clone_from(&src)).is_some(), "VF:clone.clone_from_panicked");
        dst
    };
    let orig: Vec<Option<Vec<u8>>> = idx.iter().map(|i| ref_dump(&src, *i)).collect();
    for (i, o) in idx.iter().zip(&orig) {
        if let Some(want) = o {
            vassert!(try_dump(&c, *i).as_ref() == Some(want), "VF:clone.copy_reads_differ");
        }
    }
    // identical further pushes answer identically (on a second pair of copies, so that the rest of the harness observes
    // the two regions exactly as they were right after cloning)
    let z = v[7] % S::POOL;
    {
        let (mut s2, mut c2) = (src.clone(), c.clone());
        if let Some(a) = try_put(&mut s2, z) {
            let b = try_put(&mut c2, z);
            vassert!(b == Some(a), "VF:clone.further_push_index_differs");
            if let Some(want) = ref_dump(&s2, a) {
                vassert!(try_dump(&c2, b.unwrap()) == Some(want), "VF:clone.further_push_read_differs");
            }
        }
    }
    // independence: operations on one side never change what the other side reads
    let w = (z + 1) % S::POOL;
    let c_before: Vec<Option<Vec<u8>>> = idx.iter().map(|i| ref_dump(&c, *i)).collect();
    let _ = try_put(&mut src, w);
    let _ = try_put(&mut src, z);
    for (i, o) in idx.iter().zip(&c_before) {
        if let Some(want) = o {
            vassert!(try_dump(&c, *i).as_ref() == Some(want), "VF:clone.not_independent_after_push");
        }
    }
    let s_before: Vec<Option<Vec<u8>>> = idx.iter().map(|i| ref_dump(&src, *i)).collect();
    c.clear();
    let _ = try_put(&mut c, w);
    for (i, o) in idx.iter().zip(&s_before) {
        if let Some(want) = o {
            vassert!(try_dump(&src, *i).as_ref() == Some(want), "VF:clone.not_independent_after_clear");
        }
    }
}

// ---------------------------------------------------------------------------------------------------- C10 reserve / merge twins
fn reserve_twin<S: Subject>(v: &[u64])
where
    S::Index: PartialEq + Copy,
{
    let h = [v[1] % S::POOL, v[2] % S::POOL, v[3] % S::POOL];
    let announced = [v[4] % S::POOL, v[5] % S::POOL];
    let mut plain = S::default();
    let mut res = S::default();
    let mut other = S::default();
    if try_put(&mut other, announced[0]).is_none() || try_put(&mut other, announced[1]).is_none() {
        return;
    }
    let mut idx = Vec::new();
    for (step, k) in h.iter().enumerate() {
        if v[6] & (1 << step) != 0 {
            let fresh = S::default();
            let ok = must(|| {
                res.reserve_pool(&announced[..]);
                match v[6] >> 3 {
                    0 => res.reserve_regions([&other, &plain].into_iter()),
                    1 => res.reserve_regions(std::iter::once(&other)), // possibly narrower / shorter than the target
                    2 => res.reserve_regions(std::iter::once(&fresh)), // an empty source
                    _ => res.reserve_regions(std::iter::empty()),      // no source at all
                }
            });
            vassert!(ok.is_some(), "VF:reserve.panicked");
            for i in idx.iter() {
                if let Some(want) = ref_dump(&plain, *i) {
                    vassert!(try_dump(&res, *i) == Some(want), "VF:reserve.changed_existing_read");
                }
            }
        }
        let a = match try_put(&mut plain, *k) {
            Some(a) => a,
            None => return,
        };
        let b = try_put(&mut res, *k);
        vassert!(b == Some(a), "VF:reserve.changed_push_index");
        idx.push(a);
        for i in idx.iter() {
            if let Some(want) = ref_dump(&plain, *i) {
                vassert!(try_dump(&res, *i) == Some(want), "VF:reserve.changed_read");
            }
        }
    }
}

fn merge_twin<S: Subject>(v: &[u64])
where
    S::Index: PartialEq + Copy,
{
    let h = [v[1] % S::POOL, v[2] % S::POOL];
    let mut s1 = S::default();
    let mut s2 = S::default();
    for k in [v[3] % S::POOL, v[4] % S::POOL].iter().take((v[6] % 3) as usize) {
        if try_put(&mut s1, *k).is_none() {
            return;
        }
    }
    if try_put(&mut s2, v[5] % S::POOL).is_none() {
        return;
    }
    let m = must(|| match v[6] / 3 {
        0 => S::merge_regions(std::iter::empty()),
        1 => S::merge_regions(std::iter::once(&s1)),
        _ => S::merge_regions([&s1, &s2, &s1].into_iter()),
    });
    vassert!(m.is_some(), "VF:merge.panicked");
    let mut m = m.unwrap();
    // second generation: merged from its own ancestor
    if v[7] == 1 {
        let _ = try_put(&mut m, h[1]);
        let m2 = must(|| S::merge_regions([&m, &s1].into_iter()));
        vassert!(m2.is_some(), "VF:merge.panicked");
        m = m2.unwrap();
    }
    let mut fresh = S::default();
    let mut idx = Vec::new();
    for k in h {
        let b = match try_put(&mut fresh, k) {
            Some(b) => b,
            None => return,
        };
        let a = try_put(&mut m, k);
        vassert!(a == Some(b), "VF:merge.index_differs_from_default");
        let a = a.unwrap();
        idx.push(a);
        for i in idx.iter() {
            if let Some(want) = ref_dump(&fresh, *i) {
                vassert!(try_dump(&m, *i) == Some(want), "VF:merge.read_differs");
            }
        }
    }
}

// ---------------------------------------------------------------------------------------------------- C17 clause 1: no reallocation after pre-sizing
/// v[6]: 0 empty region; 1 one item; 2.. populated until some storage has at most v[6]-2 spare bytes (at most 80 items),
/// so that the announced batch does not fit into what is left.
fn prefill<S: Subject>(r: &mut S, v: &[u64]) {
    match v[6] {
        0 => {}
        1 => {
            let _ = r.put(v[7] % S::POOL);
        }
        spare => {
            for _ in 0..80 {
                let _ = r.put(v[7] % S::POOL);
                let tight = collect_heap(|cb| r.heap_size(cb)).iter().any(|p| p.1 > 0 && p.1 - p.0.min(p.1) <= (spare - 2) as usize);
                if tight {
                    break;
                }
            }
        }
    }
}
fn presize<S: Subject>(v: &[u64])
where
    S::Index: Copy,
{
    let batch = [v[1] % S::POOL, v[2] % S::POOL, v[3] % S::POOL];
    let n = (v[4] % 4) as usize;
    let batch = &batch[..n.min(3)];
    let mut src = S::default();
    for k in batch {
        let _ = src.put(*k);
    }
    let mut r = match v[5] % 4 {
        0 => {
            // reserve_items on an already populated region
            let mut r = S::default();
            prefill(&mut r, v);
            r.reserve_pool(batch);
            r
        }
        1 => {
            let mut r = S::default();
            prefill(&mut r, v);
            r.reserve_regions(std::iter::once(&src));
            r
        }
        2 => S::merge_regions(std::iter::once(&src)),
        _ => {
            // several source regions: their contents add up
            let mut src2 = S::default();
            for k in batch {
                let _ = src2.put(*k);
            }
            let mut r = S::default();
            prefill(&mut r, v);
            if v[6] % 2 == 0 {
                r.reserve_regions([&src, &src2, &src].into_iter());
            } else {
                r = S::merge_regions([&src, &src2, &src].into_iter());
            }
            let before = caps(&r);
            for _ in 0..3 {
                for k in batch {
                    let _ = r.put(*k);
                    vassert!(caps(&r) == before, "VF:presize.capacity_changed_while_absorbing_announced_items");
                }
            }
            return;
        }
    };
    let before = caps(&r);
    for k in batch {
        let _ = r.put(*k);
        let now = caps(&r);
        vassert!(now == before, "VF:presize.capacity_changed_while_absorbing_announced_items");
    }
}

fn merge_capacity_case<R>(v: &[u64], put: impl Fn(&mut FlatStack<R>, u64))
where
    R: Region + Default,
{
    let batch = [v[1] % 4, v[2] % 4, v[3] % 4];
    let n = (v[4] % 4) as usize;
    // one or two source stacks which together hold the announced contents
    let mut src = <FlatStack<R>>::default();
    let mut src2 = <FlatStack<R>>::default();
    for (i, k) in batch.iter().take(n).enumerate() {
        if v[5] == 1 && i % 2 == 1 {
            put(&mut src2, *k);
        } else {
            put(&mut src, *k);
        }
    }
    let mut r = if v[5] == 1 { <FlatStack<R>>::merge_capacity([&src, &src2].into_iter()) } else { <FlatStack<R>>::merge_capacity(std::iter::once(&src)) };
    vassert!(r.is_empty(), "VF:presize.flatstack_merge_not_empty");
    let before: Vec<usize> = collect_heap(|cb| r.heap_size(cb)).iter().map(|p| p.1).collect();
    for k in batch.iter().take(n) {
        put(&mut r, *k);
        let now: Vec<usize> = collect_heap(|cb| r.heap_size(cb)).iter().map(|p| p.1).collect();
        vassert!(now == before, "VF:presize.flatstack_capacity_changed");
    }
    vassert!(r.len() == n, "VF:presize.flatstack_len");
}
fn flatstack_merge_capacity(v: &[u64]) {
    match v[6] {
        0 => merge_capacity_case::<SliceRegion<MirrorRegion<u8>>>(v, |fs, k| fs.copy(BYTES[k as usize])),
        1 => merge_capacity_case::<MirrorRegion<u8>>(v, |fs, k| fs.copy(k as u8)),
        2 => merge_capacity_case::<OptionRegion<MirrorRegion<u8>>>(v, |fs, k| fs.copy(if k == 0 { None } else { Some(k as u8) })),
        3 => merge_capacity_case::<OwnedRegion<u8>>(v, |fs, k| fs.copy(BYTES[k as usize])),
        _ => merge_capacity_case::<ResultRegion<MirrorRegion<u8>, OwnedRegion<u8>>>(v, |fs, k| fs.copy(if k % 2 == 0 { Ok(k as u8) } else { Err(BYTES[k as usize]) })),
    }
}

// ---------------------------------------------------------------------------------------------------- C18 heap_size accounting
fn heap_acct<S: Subject>(v: &[u64], storages: usize)
where
    S::Index: Copy,
{
    let h = [v[1] % S::POOL, v[2] % S::POOL, v[3] % S::POOL];
    let mut r = S::default();
    vassert!(heap(&r).iter().all(|p| p.0 <= p.1), "VF:heap.used_exceeds_capacity");
    let mut payload = 0usize;
    let mut last_used: usize = heap(&r).iter().map(|p| p.0).sum();
    for k in h {
        let _ = r.put(k);
        payload += S::payload(k);
        let hp = heap(&r);
        vassert!(hp.iter().all(|p| p.0 <= p.1), "VF:heap.used_exceeds_capacity");
        // (the number of (used, capacity) pairs is not specified — a region may report one pair per allocation or one per
        // field; what every branch must do is contribute, which the payload bound and the clear clause below observe)
        if storages > 0 {
            vassert!(!hp.is_empty(), "VF:heap.nothing_reported");
        }
        let used: usize = hp.iter().map(|p| p.0).sum();
        vassert!(used >= last_used, "VF:heap.used_decreased_on_push");
        vassert!(used >= payload, "VF:heap.used_below_payload");
        last_used = used;
    }
    // pre-sizing changes capacities only: what is stored stays accounted (whatever the announced regions look like)
    {
        let narrow = S::default();
        r.reserve_regions(std::iter::once(&narrow));
        r.reserve_regions(std::iter::empty());
        let hp = heap(&r);
        let used: usize = hp.iter().map(|p| p.0).sum();
        vassert!(hp.iter().all(|p| p.0 <= p.1), "VF:heap.used_exceeds_capacity");
        vassert!(used >= last_used && used >= payload, "VF:heap.used_decreased_by_reserve");
    }
    let before = caps(&r);
    let used_before: usize = heap(&r).iter().map(|p| p.0).sum();
    r.clear();
    let after = heap(&r);
    vassert!(after.len() == before.len() && after.iter().zip(&before).all(|(a, b)| a.1 >= *b), "VF:heap.capacity_shrank_on_clear");
    // no pushed payload is accounted any more: at least the payload bytes are gone from the used figure (bookkeeping
    // such as a leading offset or retained column regions may remain)
    let used_after: usize = after.iter().map(|p| p.0).sum();
    vassert!(used_after + payload <= used_before, "VF:heap.payload_accounted_after_clear");
    vassert!(after.iter().all(|p| p.0 <= p.1), "VF:heap.used_exceeds_capacity");
}

macro_rules! dispatch {
    ($f:ident, $v:expr) => {
        match $v[0] {
            0 => $f::<OwnedRegion<u8>>($v),
            1 => $f::<StringRegion>($v),
            2 => $f::<SliceRegion<MirrorRegion<u8>>>($v),
            3 => $f::<SliceRegion<OwnedRegion<u8>>>($v),
            4 => $f::<OptionRegion<OwnedRegion<u8>>>($v),
            5 => $f::<ResultRegion<OwnedRegion<u8>, OwnedRegion<u8>>>($v),
            6 => $f::<TupleABRegion<OwnedRegion<u8>, StringRegion>>($v),
            7 => $f::<Vec<u8>>($v),
            8 => $f::<ColumnsRegion<MirrorRegion<u8>>>($v),
            9 => $f::<ConsecutiveIndexPairs<OwnedRegion<u8>>>($v),
            10 => $f::<CollapseSequence<ConsecutiveIndexPairs<StringRegion>>>($v),
            11 => $f::<SliceRegion<ConsecutiveIndexPairs<StringRegion>, IndexOptimized>>($v),
            12 => $f::<ColumnsRegion<StringRegion>>($v),
            13 => $f::<OptionRegion<ConsecutiveIndexPairs<StringRegion>>>($v),
            14 => $f::<StringRegion<ConsecutiveIndexPairs<OwnedRegion<u8>>>>($v),
            15 => $f::<OwnedRegion<()>>($v),
            _ => $f::<Vec<()>>($v),
        }
    };
}

fn run_clear(v: &[u64]) {
    dispatch!(clear_twin, v)
}
fn run_clone(v: &[u64]) {
    dispatch!(clone_twin, v)
}
fn run_reserve(v: &[u64]) {
    dispatch!(reserve_twin, v)
}
fn run_merge(v: &[u64]) {
    dispatch!(merge_twin, v)
}
fn run_presize(v: &[u64]) {
    // vector-backed structural regions only (C17's scope)
    match v[0] {
        0 => presize::<OwnedRegion<u8>>(v),
        1 => presize::<StringRegion>(v),
        2 => presize::<SliceRegion<MirrorRegion<u8>>>(v),
        3 => presize::<SliceRegion<OwnedRegion<u8>>>(v),
        4 => presize::<OptionRegion<OwnedRegion<u8>>>(v),
        5 => presize::<ResultRegion<OwnedRegion<u8>, OwnedRegion<u8>>>(v),
        6 => presize::<TupleABRegion<OwnedRegion<u8>, StringRegion>>(v),
        7 => presize::<Vec<u8>>(v),
        _ => flatstack_merge_capacity(v),
    }
}
fn run_heap(v: &[u64]) {
    match v[0] {
        0 => heap_acct::<OwnedRegion<u8>>(v, 1),
        1 => heap_acct::<StringRegion>(v, 1),
        2 => heap_acct::<SliceRegion<MirrorRegion<u8>>>(v, 1),
        3 => heap_acct::<SliceRegion<OwnedRegion<u8>>>(v, 2),
        4 => heap_acct::<OptionRegion<OwnedRegion<u8>>>(v, 1),
        5 => heap_acct::<ResultRegion<OwnedRegion<u8>, OwnedRegion<u8>>>(v, 2),
        6 => heap_acct::<TupleABRegion<OwnedRegion<u8>, StringRegion>>(v, 2),
        7 => heap_acct::<Vec<u8>>(v, 1),
        8 => heap_acct::<ColumnsRegion<MirrorRegion<u8>>>(v, 0),
        9 => heap_acct::<ConsecutiveIndexPairs<OwnedRegion<u8>>>(v, 3),
        10 => heap_acct::<CollapseSequence<ConsecutiveIndexPairs<StringRegion>>>(v, 3),
        11 => heap_acct::<SliceRegion<ConsecutiveIndexPairs<StringRegion>, IndexOptimized>>(v, 5),
        _ => heap_acct::<ColumnsRegion<StringRegion>>(v, 0),
    }
}

fn pre12(v: &[u64]) -> bool {
    v[0] < 17 && v[1..].iter().all(|x| *x < 32)
}
fn pre9(v: &[u64]) -> bool {
    v[0] < 9 && v[1..].iter().all(|x| *x < 12)
}
fn doms_clear() -> Vec<Vec<u64>> {
    vec![range(17), range(4), range(4), vec![1, 3], range(4), range(4), range(3)]
}
fn doms_clone() -> Vec<Vec<u64>> {
    vec![range(17), range(4), range(4), vec![0, 2], vec![1], vec![3], range(8), range(4)]
}
fn doms_reserve() -> Vec<Vec<u64>> {
    vec![range(17), range(4), range(4), vec![2], range(4), vec![1, 3], range(32)]
}
fn doms_merge() -> Vec<Vec<u64>> {
    vec![range(17), range(4), range(4), range(4), vec![2], vec![3], range(9), range(2)]
}
fn doms_presize() -> Vec<Vec<u64>> {
    vec![range(9), range(4), range(4), range(4), range(4), range(4), range(5), vec![2]]
}
fn doms_heap() -> Vec<Vec<u64>> {
    vec![range(13), range(6), range(6), range(6)]
}

pub fn harnesses() -> Vec<H> {
    let cat = "OwnedRegion<u8>, StringRegion, SliceRegion<MirrorRegion<u8>>, SliceRegion<OwnedRegion<u8>>, OptionRegion<OwnedRegion<u8>>, ResultRegion<OwnedRegion<u8>,OwnedRegion<u8>>, TupleABRegion<OwnedRegion<u8>,StringRegion>, Vec<u8>, ColumnsRegion<MirrorRegion<u8>>, ConsecutiveIndexPairs<OwnedRegion<u8>>, CollapseSequence<ConsecutiveIndexPairs<StringRegion>>, SliceRegion<ConsecutiveIndexPairs<StringRegion>, IndexOptimized>";
    let _ = cat;
    vec![
        H { name: "clear_twin", props: &["C08"], nargs: 7, pre: pre12, doms: doms_clear, run: run_clear, panic_ok: true,
            bound: "17 compositions; history of 0..3 pushes (pool of 4-6 values), clear, 2 pushes compared step by step with a default twin (indices, reads, used bytes); two clear/refill cycles", kani: false },
        H { name: "clone_twin", props: &["C09"], nargs: 8, pre: pre12, doms: doms_clone, run: run_clone, panic_ok: true,
            bound: "17 compositions; 2 pushes, then clone or clone_from into a destination pre-filled with 0..3 unrelated items; identical further push, then push on the original and clear+push on the copy; all issued indices re-read on both", kani: false },
        H { name: "reserve_twin", props: &["C10", "C02"], nargs: 7, pre: pre12, doms: doms_reserve, run: run_reserve, panic_ok: true,
            bound: "17 compositions; 3 pushes with reserve_items / reserve_regions (sources: unrelated + own twin / one unrelated, possibly narrower / one empty / none) before any subset of them, compared with a twin that never reserves", kani: false },
        H { name: "merge_twin", props: &["C10"], nargs: 8, pre: pre12, doms: doms_merge, run: run_merge, panic_ok: true,
            bound: "17 compositions; merge_regions over 0, 1 or 3 source regions (empty / populated / repeated), optionally a second generation merged from its own ancestor; 2 pushes compared with a default twin", kani: false },
        H { name: "presize_no_realloc", props: &["C17"], nargs: 8, pre: pre9, doms: doms_presize, run: run_presize, panic_ok: false,
            bound: "8 vector-backed structural regions + FlatStack::merge_capacity over one or two source stacks (slice, mirror, option-of-mirror, owned, result regions); batch of 0..3 items; reserve_items / reserve_regions (on an empty region, one holding 1 item, or one filled until a storage has 0..2 spare bytes) / merge_regions (one source, or three sources whose contents add up), then pushing exactly the announced contents: every capacity reported by heap_size constant", kani: false },
        H { name: "heap_accounting", props: &["C18"], nargs: 4, pre: pre12, doms: doms_heap, run: run_heap, panic_ok: false,
            bound: "13 compositions; 3 pushes: used <= capacity for every pair, number of pairs, sum(used) >= payload + index entries, non-decreasing under push and under reserve_regions (narrower / no sources); after clear no payload accounted and no capacity shrank", kani: false },
    ]
}

// ---------------------------------------------------------------------------------------------------- long random histories (thorough tier)
/// 12 operations drawn from {push k, clear, reserve, reserve_regions, clone-and-continue-on-the-clone, merge-and-restart}
/// on one subject, mirrored in a model (list of (index, pool id) issued since the last clear); everything issued is
/// re-read after every operation (C01, C02, C08, C09, C10).
fn long_history<S: Subject>(v: &[u64])
where
    S::Index: PartialEq + Copy,
{
    let mut r = S::default();
    let mut twin = S::default(); // receives the same pushes since the last clear/merge, never reserves, never cloned
    let mut issued: Vec<(S::Index, u64)> = Vec::new();
    for op in &v[1..] {
        match *op % 10 {
            0..=5 => {
                let k = (*op / 10) % S::POOL;
                let (a, b) = (r.put(k), twin.put(k));
                vassert!(a == b, "VF:long.index_differs_from_twin");
                issued.push((a, k));
            }
            6 => {
                r.clear();
                twin = S::default();
                issued.clear();
            }
            7 => {
                r.reserve_pool(&[(*op / 10) % S::POOL, 0]);
                r.reserve_regions(std::iter::once(&twin));
            }
            8 => {
                let c = r.clone();
                r = c;
            }
            _ => {
                let m = S::merge_regions([&r, &twin].into_iter());
                r = m;
                twin = S::default();
                issued.clear();
            }
        }
        for (i, k) in &issued {
            vassert!(r.same(*i, *k), "VF:long.read_differs_from_pushed");
        }
    }
}
fn run_long(v: &[u64]) {
    dispatch!(long_history, v)
}
fn pre_long(v: &[u64]) -> bool {
    v[0] < 17 && v[1..].iter().all(|x| *x < 60)
}
fn doms_long() -> Vec<Vec<u64>> {
    let mut d = vec![range(17)];
    for _ in 0..12 {
        d.push(range(60));
    }
    d
}

pub fn harnesses_long() -> Vec<H> {
    vec![H { name: "long_histories_full", props: &["C01", "C02", "C08", "C09", "C10"], nargs: 13, pre: pre_long, doms: doms_long, run: run_long, panic_ok: false,
        bound: "17 compositions; seeded random histories of 12 operations (push of a pool value, clear, reserve_items+reserve_regions, clone, merge_regions) mirrored on a twin; all issued indices re-read after every operation; sampled, not exhaustive (thorough tier)", kani: false }]
}

// ---------------------------------------------------------------------------------------------------- C17: allocator calls
/// Push a pool value without the harness itself allocating (static inputs only).
trait AllocSubject: Region {
    const STORAGES: usize;
    fn put_static(&mut self, k: u64);
    fn reserve_static(&mut self, ks: &[u64]);
    /// elements appended to the largest storage by one push of value k (upper bound)
    fn grow(k: u64) -> usize;
}
macro_rules! alloc_subject {
    ($ty:ty, $storages:expr, $put:expr, $reserve:expr, $grow:expr) => {
        impl AllocSubject for $ty {
            const STORAGES: usize = $storages;
            fn put_static(&mut self, k: u64) {
                let f: fn(&mut $ty, u64) = $put;
                f(self, k)
            }
            fn reserve_static(&mut self, ks: &[u64]) {
                let f: fn(&mut $ty, &[u64]) = $reserve;
                f(self, ks)
            }
            fn grow(k: u64) -> usize {
                let f: fn(u64) -> usize = $grow;
                f(k)
            }
        }
    };
}
alloc_subject!(OwnedRegion<u8>, 1, |r, k| { let _ = r.push(BYTES[k as usize % 4]); }, |r, ks| r.reserve_items(ks.iter().map(|k| BYTES[*k as usize % 4])), |k| BYTES[k as usize % 4].len());
alloc_subject!(StringRegion, 1, |r, k| { let _ = r.push(string(k)); }, |r, ks| r.reserve_items(ks.iter().map(|k| string(*k))), |k| string(k).len());
alloc_subject!(SliceRegion<MirrorRegion<u8>>, 1, |r, k| { let _ = r.push(BYTES[k as usize % 4]); }, |r, ks| r.reserve_items(ks.iter().map(|k| BYTES[*k as usize % 4])), |k| BYTES[k as usize % 4].len());
alloc_subject!(SliceRegion<OwnedRegion<u8>>, 2, |r, k| { let _ = r.push(NESTED[k as usize % 4]); }, |_r, _ks| {}, |k| NESTED[k as usize % 4].iter().map(|x| x.len()).sum::<usize>().max(NESTED[k as usize % 4].len()));
alloc_subject!(OptionRegion<OwnedRegion<u8>>, 1, |r, k| { let _ = r.push(OPTS[k as usize % 4]); }, |r, ks| r.reserve_items(ks.iter().map(|k| OPTS[*k as usize % 4])), |k| OPTS[k as usize % 4].map_or(0, |x| x.len()));
alloc_subject!(ResultRegion<OwnedRegion<u8>, OwnedRegion<u8>>, 2, |r, k| { let _ = r.push(RESS[k as usize % 4]); }, |r, ks| r.reserve_items(ks.iter().map(|k| RESS[*k as usize % 4])), |k| match RESS[k as usize % 4] { Ok(x) | Err(x) => x.len() });
alloc_subject!(TupleABRegion<OwnedRegion<u8>, StringRegion>, 2, |r, k| { let _ = r.push(TUPS[k as usize % 4]); }, |_r, _ks| {}, |k| TUPS[k as usize % 4].0.len().max(TUPS[k as usize % 4].1.len()));
alloc_subject!(Vec<u8>, 1, |r, k| { let _ = <Vec<u8> as Push<u8>>::push(r, k as u8); }, |r, ks| r.reserve_items(ks.iter()), |_k| 1);

#[cfg(not(kani))]
fn alloc_body<S: AllocSubject>(v: &[u64]) {
    let n = 1usize << v[1];
    let mode = v[2];
    let pattern = [v[3], v[4], v[5]];
    let val = |i: usize| pattern[i % 3];
    if mode == 0 {
        // without pre-sizing: O(log n) allocator calls per internal storage, never one per item
        let mut r = S::default();
        let before = crate::alloc_count::calls();
        let mut elems = 1usize;
        for i in 0..n {
            r.put_static(val(i));
            elems += S::grow(val(i));
        }
        let calls = crate::alloc_count::calls() - before;
        let log = (usize::BITS - elems.leading_zeros()) as usize;
        // (O(log n) with a constant that admits any geometric growth factor down to 1.5, not only std's doubling)
        vassert!(calls <= S::STORAGES * (2 * log + 4), "VF:alloc.more_than_logarithmic_allocator_calls");
        vcover!(calls > 0, "growth happened");
    } else {
        // after pre-sizing (reserve_items on an empty or populated region / merge_regions): no allocator call at all
        let batch: Vec<u64> = (0..n.min(64)).map(val).collect();
        let mut r = S::default();
        if v[5] == 3 && mode != 3 {
            // already populated target (fill it to its capacity so that spare room cannot hide a short reservation)
            for i in 0..8 {
                r.put_static(val(i));
            }
        }
        let mut src = S::default();
        for k in &batch {
            src.put_static(*k);
        }
        if mode == 3 {
            r = S::merge_regions(std::iter::once(&src));
        } else if mode == 4 {
            r.reserve_regions(std::iter::once(&src));
        } else {
            r.reserve_static(&batch);
            if S::STORAGES == 2 && !S::default_reserve_is_complete() {
                return;
            }
        }
        let before = crate::alloc_count::calls();
        for k in &batch {
            r.put_static(*k);
        }
        let calls = crate::alloc_count::calls() - before;
        vassert!(calls == 0, "VF:alloc.allocator_called_after_presizing");
    }
}
trait ReserveComplete {
    fn default_reserve_is_complete() -> bool;
}
impl<S: AllocSubject> ReserveComplete for S {
    fn default_reserve_is_complete() -> bool {
        // subjects whose reserve_static is a no-op in this harness (nested / tuple forms need owned temporaries)
        !(std::any::type_name::<S>().contains("SliceRegion<flatcontainer::impls::slice_owned::OwnedRegion") || std::any::type_name::<S>().contains("Tuple"))
    }
}
#[cfg(kani)]
fn alloc_body<S: AllocSubject>(_v: &[u64]) {}
fn run_alloc(v: &[u64]) {
    match v[0] {
        0 => alloc_body::<OwnedRegion<u8>>(v),
        1 => alloc_body::<StringRegion>(v),
        2 => alloc_body::<SliceRegion<MirrorRegion<u8>>>(v),
        3 => alloc_body::<SliceRegion<OwnedRegion<u8>>>(v),
        4 => alloc_body::<OptionRegion<OwnedRegion<u8>>>(v),
        5 => alloc_body::<ResultRegion<OwnedRegion<u8>, OwnedRegion<u8>>>(v),
        6 => alloc_body::<TupleABRegion<OwnedRegion<u8>, StringRegion>>(v),
        _ => alloc_body::<Vec<u8>>(v),
    }
}
fn pre_alloc(v: &[u64]) -> bool {
    v[0] < 8 && (6..=14).contains(&v[1]) && v[2] < 5 && v[2] != 2 && v[3] < 6 && v[4] < 6 && v[5] < 6
}
fn doms_alloc() -> Vec<Vec<u64>> {
    vec![range(8), vec![6, 8, 10, 12, 14], range(5), range(4), vec![1, 2], vec![0, 3]]
}

// C17 clause 1 per input form: `reserve_items(batch in form F)` then pushing the batch in form F never changes a capacity.
// args: case (region x form), b0 b1 b2 (pool indices), n (batch length 0..3), prefill (0 empty, 1 one item, 2.. filled until tight)
#[cfg(not(kani))]
fn form_case<R: Region + Default>(v: &[u64], put: impl Fn(&mut R, usize), reserve: impl Fn(&mut R, &[usize])) {
    let batch: Vec<usize> = v[1..4].iter().take(v[4] as usize).map(|k| *k as usize).collect();
    let mut r = R::default();
    match v[5] {
        0 => {}
        1 => put(&mut r, 2),
        spare => {
            for _ in 0..80 {
                put(&mut r, 2);
                if collect_heap(|cb| r.heap_size(cb)).iter().any(|p| p.1 > 0 && p.1 - p.0.min(p.1) <= (spare - 2) as usize) {
                    break;
                }
            }
        }
    }
    reserve(&mut r, &batch);
    let before = caps(&r);
    for k in &batch {
        put(&mut r, *k);
        vassert!(caps(&r) == before, "VF:presize.forms.capacity_changed_while_absorbing_announced_items");
    }
}
#[cfg(kani)]
fn run_presize_forms(_v: &[u64]) {}
#[cfg(not(kani))]
fn run_presize_forms(v: &[u64]) {
    use flatcontainer::PushIter;
    crate::section("VF:presize.forms");
    static ARR: [[u8; 3]; 4] = [[0, 0, 0], [1, 1, 1], [2, 3, 4], [255, 0, 9]];
    static VECS: std::sync::OnceLock<Vec<Vec<u8>>> = std::sync::OnceLock::new();
    let vecs = VECS.get_or_init(|| BYTES.iter().map(|b| b.to_vec()).collect());
    static STRINGS: std::sync::OnceLock<Vec<String>> = std::sync::OnceLock::new();
    let strings = STRINGS.get_or_init(|| (0..4).map(|k| string(k).to_string()).collect());
    static STRS: [&str; 4] = ["", "a", "é𝄞", "hello world"];
    static SL_ARR: [&[[u8; 2]]; 4] = [&[], &[[1, 2]], &[[3, 4], [5, 6], [7, 8]], &[[9, 9], [0, 0]]];
    static SL_VEC: std::sync::OnceLock<Vec<Vec<[u8; 2]>>> = std::sync::OnceLock::new();
    let sl_vec = SL_VEC.get_or_init(|| SL_ARR.iter().map(|b| b.to_vec()).collect());
    static AA: [[[u8; 2]; 2]; 4] = [[[0, 0], [0, 0]], [[1, 2], [3, 4]], [[5, 6], [7, 8]], [[9, 9], [9, 9]]];
    static OPT_ARR: [Option<[u8; 2]>; 4] = [None, Some([1, 2]), None, Some([3, 4])];
    static RES_ARR: [Result<[u8; 2], [u8; 3]>; 4] = [Ok([1, 2]), Err([3, 4, 5]), Err([0, 0, 0]), Ok([6, 7])];
    static TUP_OWNED: [(&[u8], &str); 4] = [(&[], ""), (&[1], "é"), (&[2, 3], "ab"), (&[4, 5, 6], "𝄞")];
    static TUP_REF: std::sync::OnceLock<Vec<([u8; 2], String)>> = std::sync::OnceLock::new();
    let tup_ref = TUP_REF.get_or_init(|| (0..4u8).map(|k| ([k, k], "x".repeat(k as usize * 3))).collect());
    match v[0] {
        0 => form_case::<OwnedRegion<u8>>(v, |r, k| { let _ = r.push(&ARR[k]); }, |r, b| r.reserve_items(b.iter().map(|k| &ARR[*k]))),
        1 => form_case::<OwnedRegion<u8>>(v, |r, k| { let _ = r.push(BYTES[k]); }, |r, b| r.reserve_items(b.iter().map(|k| BYTES[*k]))),
        2 => form_case::<OwnedRegion<u8>>(v, |r, k| { let _ = r.push(&vecs[k]); }, |r, b| r.reserve_items(b.iter().map(|k| &vecs[*k]))),
        3 => form_case::<OwnedRegion<u8>>(v, |r, k| { let _ = r.push(PushIter(BYTES[k].iter().copied())); }, |r, b| r.reserve_items(b.iter().map(|k| PushIter(BYTES[*k].iter().copied())))),
        4 => form_case::<StringRegion>(v, |r, k| { let _ = r.push(&strings[k]); }, |r, b| r.reserve_items(b.iter().map(|k| &strings[*k]))),
        5 => form_case::<StringRegion>(v, |r, k| { let _ = r.push(STRS[k]); }, |r, b| r.reserve_items(b.iter().map(|k| STRS[*k]))),
        6 => form_case::<StringRegion>(v, |r, k| { let _ = r.push(&STRS[k]); }, |r, b| r.reserve_items(b.iter().map(|k| &STRS[*k]))),
        7 => form_case::<SliceRegion<OwnedRegion<u8>>>(v, |r, k| { let _ = r.push(SL_ARR[k]); }, |r, b| r.reserve_items(b.iter().map(|k| SL_ARR[*k]))),
        8 => form_case::<SliceRegion<OwnedRegion<u8>>>(v, |r, k| { let _ = r.push(&sl_vec[k]); }, |r, b| r.reserve_items(b.iter().map(|k| &sl_vec[*k]))),
        9 => form_case::<SliceRegion<OwnedRegion<u8>>>(v, |r, k| { let _ = r.push(&AA[k]); }, |r, b| r.reserve_items(b.iter().map(|k| &AA[*k]))),
        10 => {
            // read items of another region of the same type
            let mut src = <SliceRegion<OwnedRegion<u8>>>::default();
            let idx: Vec<_> = (0..4).map(|k| src.push(SL_ARR[k])).collect();
            form_case::<SliceRegion<OwnedRegion<u8>>>(v, |r, k| { let _ = r.push(src.index(idx[k])); }, |r, b| r.reserve_items(b.iter().map(|k| src.index(idx[*k]))))
        }
        11 => form_case::<OptionRegion<OwnedRegion<u8>>>(v, |r, k| { let _ = r.push(OPTS[k]); }, |r, b| r.reserve_items(b.iter().map(|k| OPTS[*k]))),
        12 => form_case::<OptionRegion<OwnedRegion<u8>>>(v, |r, k| { let _ = r.push(&OPT_ARR[k]); }, |r, b| r.reserve_items(b.iter().map(|k| &OPT_ARR[*k]))),
        13 => form_case::<ResultRegion<OwnedRegion<u8>, OwnedRegion<u8>>>(v, |r, k| { let _ = r.push(RESS[k]); }, |r, b| r.reserve_items(b.iter().map(|k| RESS[*k]))),
        14 => form_case::<ResultRegion<OwnedRegion<u8>, OwnedRegion<u8>>>(v, |r, k| { let _ = r.push(&RES_ARR[k]); }, |r, b| r.reserve_items(b.iter().map(|k| &RES_ARR[*k]))),
        15 => form_case::<TupleABRegion<OwnedRegion<u8>, StringRegion>>(v, |r, k| { let _ = r.push(TUP_OWNED[k]); }, |r, b| r.reserve_items(b.iter().map(|k| TUP_OWNED[*k]))),
        16 => form_case::<TupleABRegion<OwnedRegion<u8>, StringRegion>>(v, |r, k| { let _ = r.push(&tup_ref[k]); }, |r, b| r.reserve_items(b.iter().map(|k| &tup_ref[*k]))),
        17 => form_case::<Vec<u8>>(v, |r, k| { let _ = <Vec<u8> as Push<u8>>::push(r, k as u8); }, |r, b| r.reserve_items(b.iter())),
        18 => form_case::<SliceRegion<MirrorRegion<u8>>>(v, |r, k| { let _ = r.push(&ARR[k]); }, |r, b| r.reserve_items(b.iter().map(|k| &ARR[*k]))),
        // announced by reference, pushed in the owned form (the storage takes the elements over: `PushStorage<&mut Vec<T>>`)
        19 => form_case::<OwnedRegion<u8>>(v, |r, k| { let _ = r.push(vecs[k].clone()); }, |r, b| r.reserve_items(b.iter().map(|k| &vecs[*k]))),
        20 => form_case::<OwnedRegion<u8>>(v, |r, k| { let _ = r.push(ARR[k]); }, |r, b| r.reserve_items(b.iter().map(|k| &ARR[*k]))),
        21 => {
            let nested: Vec<Vec<Vec<u8>>> = NESTED.iter().map(|x| x.iter().map(|y| y.to_vec()).collect()).collect();
            form_case::<SliceRegion<OwnedRegion<u8>>>(v, |r, k| { let _ = r.push(nested[k].clone()); }, |r, b| r.reserve_items(b.iter().map(|k| &nested[*k])))
        }
        22 => form_case::<StringRegion>(v, |r, k| { let _ = r.push(strings[k].clone()); }, |r, b| r.reserve_items(b.iter().map(|k| &strings[*k]))),
        // owned vectors that carry spare capacity of their own (built by with_capacity / repeated push)
        23 => {
            let roomy = |x: &[u8]| { let mut o = Vec::with_capacity(x.len() + 37); o.extend_from_slice(x); o };
            form_case::<OwnedRegion<u8>>(v, |r, k| { let _ = r.push(roomy(&vecs[k])); }, |r, b| r.reserve_items(b.iter().map(|k| &vecs[*k])))
        }
        24 => {
            let nested: Vec<Vec<Vec<u8>>> = NESTED.iter().map(|x| x.iter().map(|y| y.to_vec()).collect()).collect();
            let roomy = |x: &Vec<Vec<u8>>| { let mut o = Vec::with_capacity(x.len() + 19); for y in x { let mut z = Vec::with_capacity(y.len() + 11); z.extend_from_slice(y); o.push(z); } o };
            form_case::<SliceRegion<OwnedRegion<u8>>>(v, |r, k| { let _ = r.push(roomy(&nested[k])); }, |r, b| r.reserve_items(b.iter().map(|k| &nested[*k])))
        }
        // strings and tuples announced THROUGH an outer region: the inner `reserve_items` receives a flattened / filtered
        // iterator whose size hint has a lower bound of 0 although it yields items
        25 => {
            let svecs: Vec<Vec<String>> = vec![vec![], vec!["a".into()], vec!["é𝄞".into(), "hello world".into()], vec!["".into(), "xyz".into(), "q".into()]];
            form_case::<SliceRegion<StringRegion>>(v, |r, k| { let _ = r.push(&svecs[k]); }, |r, b| r.reserve_items(b.iter().map(|k| &svecs[*k])))
        }
        26 => {
            static OPT_STR: [Option<&str>; 4] = [None, Some("abc"), Some(""), Some("hello world")];
            form_case::<OptionRegion<StringRegion>>(v, |r, k| { let _ = r.push(OPT_STR[k]); }, |r, b| r.reserve_items(b.iter().map(|k| OPT_STR[*k])))
        }
        27 => {
            static RES_STR: [Result<&str, &str>; 4] = [Ok("abc"), Err("hello world"), Err(""), Ok("é𝄞")];
            form_case::<ResultRegion<StringRegion, StringRegion>>(v, |r, k| { let _ = r.push(RES_STR[k]); }, |r, b| r.reserve_items(b.iter().map(|k| RES_STR[*k])))
        }
        28 => {
            let tvecs: Vec<Vec<([u8; 2], String)>> = vec![vec![], vec![([1, 2], "a".into())], vec![([3, 4], "hello world".into()), ([5, 6], "é".into())], vec![([7, 8], String::new()), ([9, 9], "xyz".into()), ([0, 0], "q".into())]];
            form_case::<SliceRegion<TupleABRegion<OwnedRegion<u8>, StringRegion>>>(v, |r, k| { let _ = r.push(&tvecs[k]); }, |r, b| r.reserve_items(b.iter().map(|k| &tvecs[*k])))
        }
        29 => {
            let otup: Vec<Option<([u8; 2], String)>> = vec![None, Some(([1, 2], "hello world".into())), Some(([3, 4], String::new())), Some(([5, 6], "é𝄞".into()))];
            form_case::<OptionRegion<TupleABRegion<OwnedRegion<u8>, StringRegion>>>(v, |r, k| { let _ = r.push(&otup[k]); }, |r, b| r.reserve_items(b.iter().map(|k| &otup[*k])))
        }
        31 => form_case::<SliceRegion<Vec<u8>>>(v, |r, k| { let _ = r.push(&ARR[k]); }, |r, b| r.reserve_items(b.iter().map(|k| &ARR[*k]))),
        32 => {
            // announcements above 64 KiB per storage (construction through merge_regions / merge_capacity)
            let n = 2500 * (v[4] as usize + 1);
            let mut src = <OwnedRegion<u64>>::default();
            let block: Vec<u64> = (0..n as u64).collect();
            let _ = src.push(block.as_slice());
            let mut m = <OwnedRegion<u64>>::merge_regions([&src, &src].into_iter());
            let before = caps(&m);
            for _ in 0..2 {
                let _ = m.push(block.as_slice());
                vassert!(caps(&m) == before, "VF:presize.forms.capacity_changed_while_absorbing_announced_items");
            }
            let mut fs = FlatStack::<OwnedRegion<u8>>::default();
            for i in 0..(n * 2) {
                fs.copy([i as u8].as_slice());
            }
            let mut fm = FlatStack::<OwnedRegion<u8>>::merge_capacity(std::iter::once(&fs));
            let fcaps = |fs: &FlatStack<OwnedRegion<u8>>| -> Vec<usize> { collect_heap(|cb| fs.heap_size(cb)).iter().map(|p| p.1).collect() };
            let before = fcaps(&fm);
            for i in 0..(n * 2) {
                fm.copy([i as u8].as_slice());
            }
            vassert!(fcaps(&fm) == before, "VF:presize.forms.capacity_changed_while_absorbing_announced_items");
        }
        _ => {
            // through FlatStack::reserve_items, announced by an iterator without an exact size (a filter that keeps everything)
            let batch: Vec<usize> = v[1..4].iter().take(v[4] as usize).map(|k| *k as usize).collect();
            let mut fs = FlatStack::<StringRegion>::default();
            for _ in 0..(v[5] as usize * v[5] as usize) {
                fs.copy(STRS[2]);
            }
            fs.reserve(batch.len());
            fs.reserve_items(batch.iter().map(|k| STRS[*k]).filter(|s| s.len() < 1000));
            let fcaps = |fs: &FlatStack<StringRegion>| -> Vec<usize> { collect_heap(|cb| fs.heap_size(cb)).iter().map(|p| p.1).collect() };
            let before = fcaps(&fs);
            for k in &batch {
                fs.copy(STRS[*k]);
                vassert!(fcaps(&fs) == before, "VF:presize.forms.capacity_changed_while_absorbing_announced_items");
            }
        }
    }
}
fn pre_presize_forms(v: &[u64]) -> bool {
    v[0] < 34 && (v[0] != 32 || (v[1] == 0 && v[2] == 0 && v[3] == 0 && v[5] == 0)) && v[1] < 4 && v[2] < 4 && v[3] < 4 && v[4] < 4 && v[5] < 5
}
fn doms_presize_forms() -> Vec<Vec<u64>> {
    vec![range(34), range(4), range(4), range(4), range(4), range(5)]
}

// C17 clause 2 over further input forms and non-coded compositions (the iterator / array / reference-to-reference forms
// reach the storages through `PushStorage<PushIter<_>>` and friends, not through the slice path).
#[cfg(not(kani))]
fn log_case<R: Default>(n: usize, storages: usize, per_push: usize, put: impl Fn(&mut R, usize)) {
    let mut r = R::default();
    let before = crate::alloc_count::calls();
    for i in 0..n {
        put(&mut r, i);
    }
    let calls = crate::alloc_count::calls() - before;
    let elems = 1 + n * per_push.max(1);
    let log = (usize::BITS - elems.leading_zeros()) as usize;
    vassert!(calls <= storages * (2 * log + 4), "VF:alloc.forms.more_than_logarithmic_allocator_calls");
    vcover!(calls > 0, "growth happened");
}
#[cfg(kani)]
fn run_alloc_forms(_v: &[u64]) {}
#[cfg(not(kani))]
fn run_alloc_forms(v: &[u64]) {
    use flatcontainer::PushIter;
    crate::section("VF:alloc.forms");
    let n = 1usize << v[1];
    const A3: [u8; 3] = [7, 8, 9];
    static RA3: &[u8; 3] = &A3;
    static RRA3: &&[u8; 3] = &RA3;
    static RS: &&[u8] = &BYTES[2];
    static STRS: [&str; 3] = ["ab", "é𝄞", "ab"];
    static RSTR: [&&str; 3] = [&STRS[0], &STRS[1], &STRS[2]];
    match v[0] {
        0 => log_case::<OwnedRegion<u8>>(n, 1, 3, |r, _| { let _ = r.push(A3); }),
        1 => log_case::<OwnedRegion<u8>>(n, 1, 3, |r, _| { let _ = r.push(RA3); }),
        2 => log_case::<OwnedRegion<u8>>(n, 1, 3, |r, _| { let _ = r.push(*RRA3); }),
        3 => log_case::<OwnedRegion<u8>>(n, 1, 3, |r, _| { let _ = r.push(PushIter(BYTES[2].iter().copied())); }),
        4 => log_case::<OwnedRegion<u8>>(n, 1, 3, |r, _| { let _ = r.push(RS); }),
        5 => log_case::<SliceRegion<MirrorRegion<u8>>>(n, 1, 3, |r, _| { let _ = r.push(A3); }),
        6 => log_case::<SliceRegion<MirrorRegion<u8>>>(n, 1, 3, |r, _| { let _ = r.push(RA3); }),
        7 => log_case::<StringRegion>(n, 1, 5, |r, i| { let _ = r.push(RSTR[i % 3]); }),
        8 => log_case::<ColumnsRegion<MirrorRegion<u8>>>(n, 5, 3, |r, i| { let _ = r.push(ROWS[i % 4]); }),
        9 => log_case::<ColumnsRegion<MirrorRegion<u8>>>(n, 5, 3, |r, _| { let _ = r.push(A3); }),
        10 => log_case::<ColumnsRegion<MirrorRegion<u8>>>(n, 5, 3, |r, _| { let _ = r.push(PushIter(BYTES[2].iter().copied())); }),
        11 => log_case::<ColumnsRegion<StringRegion>>(n, 8, 5, |r, i| { let _ = r.push(SROWS[i % 4]); }),
        12 => log_case::<ConsecutiveIndexPairs<OwnedRegion<u8>>>(n, 4, 3, |r, i| { let _ = r.push(BYTES[i % 4]); }),
        13 => log_case::<CollapseSequence<ConsecutiveIndexPairs<StringRegion>>>(n, 4, 5, |r, i| { let _ = r.push(STRS[i % 2]); }),
        14 => log_case::<FlatStack<OwnedRegion<u8>>>(n, 2, 3, |r, i| r.copy(BYTES[i % 4])),
        15 => log_case::<FlatStack<SliceRegion<MirrorRegion<u8>>>>(n, 2, 3, |r, i| r.copy(BYTES[i % 4])),
        16 => log_case::<FlatStack<ConsecutiveIndexPairs<OwnedRegion<u8>>, IndexOptimized>>(n, 6, 3, |r, i| r.copy(BYTES[i % 4])),
        17 => log_case::<SliceRegion<ConsecutiveIndexPairs<StringRegion>, IndexOptimized>>(n, 6, 5, |r, i| { let _ = r.push(SROWS[i % 4]); }),
        18 => log_case::<Vec<u8>>(n, 1, 1, |r, i| { let _ = <Vec<u8> as Push<&u8>>::push(r, &BYTES[2][i % 3]); }),
        // replaying read items of another region (region-to-region copies build no temporaries)
        19 => {
            let mut src = <SliceRegion<MirrorRegion<u8>>>::default();
            let idx: Vec<_> = (0..4).map(|k| src.push(BYTES[k])).collect();
            log_case::<SliceRegion<MirrorRegion<u8>>>(n, 1, 3, |r, i| { let _ = r.push(src.index(idx[i % 4])); })
        }
        20 => {
            let mut src = <SliceRegion<OwnedRegion<u8>>>::default();
            let idx: Vec<_> = (0..4).map(|k| src.push(NESTED[k])).collect();
            log_case::<SliceRegion<OwnedRegion<u8>>>(n, 2, 6, |r, i| { let _ = r.push(src.index(idx[i % 4])); })
        }
        21 => {
            let mut src = <ColumnsRegion<MirrorRegion<u8>>>::default();
            let idx: Vec<_> = (0..4).map(|k| src.push(ROWS[k])).collect();
            log_case::<ColumnsRegion<MirrorRegion<u8>>>(n, 5, 3, |r, i| { let _ = r.push(src.index(idx[i % 4])); })
        }
        _ => {
            let mut src = <FlatStack<SliceRegion<MirrorRegion<u8>>>>::default();
            for k in 0..4 {
                src.copy(BYTES[k]);
            }
            log_case::<FlatStack<SliceRegion<MirrorRegion<u8>>>>(n, 2, 3, |r, i| r.copy(src.get(i % 4)))
        }
    }
}
fn pre_alloc_forms(v: &[u64]) -> bool {
    v[0] < 23 && (6..=14).contains(&v[1])
}
fn doms_alloc_forms() -> Vec<Vec<u64>> {
    vec![range(23), vec![6, 8, 10, 12, 14]]
}

// C18, last clause, on histories large enough for a storage to pass any fixed retention threshold
fn big_clear<S: Subject>(v: &[u64])
where
    S::Index: Copy,
{
    crate::section("VF:heap.big_clear");
    let n = [300usize, 1100, 2100, 4200][v[1] as usize];
    let mut r = S::default();
    for i in 0..n {
        let _ = r.put((v[2] + i as u64 % 2) % S::POOL);
    }
    let before = heap(&r);
    vassert!(before.iter().all(|p| p.0 <= p.1), "VF:heap.big_clear.used_exceeds_capacity");
    r.clear();
    let after = heap(&r);
    vassert!(after.len() == before.len(), "VF:heap.big_clear.pairs_changed");
    for (b, a) in before.iter().zip(after.iter()) {
        vassert!(a.1 >= b.1, "VF:heap.big_clear.capacity_shrank_on_clear");
    }
}
fn run_big_clear(v: &[u64]) {
    dispatch!(big_clear, v)
}
fn pre_big_clear(v: &[u64]) -> bool {
    v[0] < 17 && v[1] < 4 && v[2] < 6
}
fn doms_big_clear() -> Vec<Vec<u64>> {
    vec![range(17), range(4), vec![1, 2, 3]]
}

pub fn harnesses_alloc() -> Vec<H> {
    vec![H { name: "heap_big_clear", props: &["C18"], nargs: 3, pre: pre_big_clear, doms: doms_big_clear, run: run_big_clear, panic_ok: false,
        bound: "17 compositions; 300 / 1100 / 2100 / 4200 pushes alternating two pool values, then clear: same number of (used, capacity) pairs, no capacity smaller than before", kani: false },
    H { name: "presize_forms", props: &["C17"], nargs: 6, pre: pre_presize_forms, doms: doms_presize_forms, run: run_presize_forms, panic_ok: false,
        bound: "33 (region, ReserveItems form) pairs (incl. Vec<T> inside a slice region, and merge_regions / merge_capacity announcing 40..160 KiB per storage) (incl. strings and tuples announced through an enclosing slice / option / result region, and FlatStack::reserve_items fed by a filtered iterator) (six of them announced by reference and pushed in the owned Vec / array / String form, two with owned vectors that carry spare capacity): OwnedRegion (&[T;N], &[T], &Vec<T>, PushIter), StringRegion (&String, &str, &&str), SliceRegion<OwnedRegion> (&[T], &Vec<T>, &[T;N], read items), OptionRegion / ResultRegion / tuple (owned and by reference), Vec<T>, SliceRegion<MirrorRegion>; batch of 0..3 items from a pool of 4; target empty / one item / filled until 0..2 spare bytes; reserve_items(batch) then pushing the batch in the same form: every capacity constant", kani: false },
    H { name: "alloc_forms", props: &["C17"], nargs: 2, pre: pre_alloc_forms, doms: doms_alloc_forms, run: run_alloc_forms, panic_ok: false,
        bound: "23 (composition, input form) pairs beyond the slice form (incl. read items of another slice / columns region and of a FlatStack replayed): OwnedRegion via [T;N], &[T;N], &&[T;N], PushIter, &&[T]; SliceRegion via arrays; StringRegion via &&str; ColumnsRegion (mirror and string columns) via slice / array / PushIter rows; ConsecutiveIndexPairs, CollapseSequence, FlatStack (Vec and IndexOptimized offsets), SliceRegion over consecutive pairs; n = 2^6 .. 2^14 pushes without pre-sizing: at most storages x (log2(elements)+2) allocator calls", kani: false },
    H { name: "alloc_discipline", props: &["C17"], nargs: 6, pre: pre_alloc, doms: doms_alloc, run: run_alloc, panic_ok: false,
        bound: "8 vector-backed structural regions, n = 2^6 .. 2^14 items from a 3-value repeating pattern over static inputs, counting global allocator: without pre-sizing at most storages x (log2(elements)+2) allocator calls; after reserve_items (empty or populated target) / reserve_regions / merge_regions of up to 64 announced items, zero allocator calls while pushing them", kani: false }]
}

// ---------------------------------------------------------------------------------------------------- C16 / C11: serialisation round trip
// A region / FlatStack is serialised (serde_json, a self-describing text format) at an arbitrary point of its history and
// restored; the restored copy reads identically at every issued index and answers the same continuation exactly like the
// original: same indices, same reads, same used bytes (deduplication and index-compression decisions included).
#[cfg(all(feature = "serde-harness", not(kani)))]
fn round_trip<T: serde::Serialize + serde::de::DeserializeOwned>(x: &T) -> T {
    let text = serde_json::to_string(x).expect("serialise");
    serde_json::from_str(&text).expect("deserialise")
}
#[cfg(all(feature = "serde-harness", not(kani)))]
fn serde_twin<S>(v: &[u64])
where
    S: Subject + serde::Serialize + serde::de::DeserializeOwned,
    S::Index: Copy + PartialEq,
{
    crate::section("VF:serde.region");
    let h1 = [v[1] % S::POOL, v[2] % S::POOL, v[3] % S::POOL];
    let h2 = [v[5] % S::POOL, v[3] % S::POOL, v[6] % S::POOL, v[5] % S::POOL];
    let mut r = S::default();
    if v[6] % 2 == 1 {
        // an earlier life, ended by clear, before the history that is serialised
        let _ = r.put(h2[0]);
        let _ = r.put(h2[2]);
        r.clear();
    }
    let mut issued = Vec::new();
    for k in h1.iter().take((v[4] % 4) as usize) {
        issued.push(r.put(*k));
    }
    let mut c: S = round_trip(&r);
    for i in &issued {
        vassert!(c.dump(*i) == r.dump(*i), "VF:serde.read_differs_after_round_trip");
    }
    for k in h2 {
        let (a, b) = (r.put(k), c.put(k));
        if S::NAME.contains("CollapseSequence") {
            // (C11: not collapsed / wrongly collapsed across the deserialisation boundary)
            vassert!(a == b, "VF:serde.collapse.index_differs_after_round_trip");
        }
        vassert!(a == b, "VF:serde.index_differs_after_round_trip");
        issued.push(a);
        for i in &issued {
            vassert!(c.dump(*i) == r.dump(*i), "VF:serde.read_differs_after_round_trip");
        }
        let (ur, uc): (usize, usize) = (heap(&r).iter().map(|p| p.0).sum(), heap(&c).iter().map(|p| p.0).sum());
        vassert!(ur == uc, "VF:serde.used_bytes_differ_after_round_trip");
    }
    // a restored copy can be cleared and refilled like any other region
    c.clear();
    let mut fresh = S::default();
    for k in h2.iter().take(2) {
        vassert!(c.put(*k) == fresh.put(*k), "VF:serde.index_differs_after_round_trip");
    }
}
#[cfg(all(feature = "serde-harness", not(kani)))]
fn serde_flatstack(v: &[u64]) {
    use flatcontainer::impls::index::IndexList;
    crate::section("VF:serde.flatstack");
    let n = (v[4] % 4) as usize;
    // offsets / indices that exercise the stride, its saturation, the u32 spill and the u64 spill
    const WIDE: [usize; 6] = [0, 5, 5, 1 << 33, 7, 10];
    match v[0] % 3 {
        0 => {
            let mut fs = <FlatStack<ConsecutiveIndexPairs<StringRegion>, IndexOptimized>>::default();
            for i in 0..n + 2 {
                fs.copy(STRS4[(v[1] as usize + i) % 4]);
            }
            let mut c = round_trip(&fs);
            for i in 0..5 {
                let s = STRS4[(v[2] as usize + i) % 4];
                fs.copy(s);
                c.copy(s);
                vassert!(fs.len() == c.len() && (0..fs.len()).all(|j| fs.get(j) == c.get(j)), "VF:serde.read_differs_after_round_trip");
                let own = |f: &FlatStack<ConsecutiveIndexPairs<StringRegion>, IndexOptimized>| -> usize { collect_heap(|cb| f.heap_size(cb)).iter().map(|p| p.0).sum() };
                vassert!(own(&fs) == own(&c), "VF:serde.used_bytes_differ_after_round_trip");
            }
        }
        1 => {
            // a stack whose region holds state without owning a single heap byte: only empty items before serialisation
            {
                let mut fs = <FlatStack<ConsecutiveIndexPairs<StringRegion>, IndexOptimized>>::default();
                for _ in 0..n + 1 {
                    fs.copy("");
                }
                let mut c = round_trip(&fs);
                vassert!(fs.len() == c.len() && (0..fs.len()).all(|j| fs.get(j) == c.get(j)), "VF:serde.read_differs_after_round_trip");
                for i in 0..3 {
                    let s = STRS4[(v[2] as usize + i) % 4];
                    fs.copy(s);
                    c.copy(s);
                    vassert!(fs.len() == c.len() && (0..fs.len()).all(|j| fs.get(j) == c.get(j)), "VF:serde.read_differs_after_round_trip");
                }
            }
            // 128-bit elements below an option region (formats buffer flattened / untagged content without 128-bit support)
            {
                let mut r = <OptionRegion<OwnedRegion<u128>>>::default();
                let wide: [u128; 3] = [1u128 << 100, 7, u128::MAX];
                let a = r.push(Some(&wide[..(n % 3) + 1]));
                let b = r.push(None::<&[u128]>);
                let mut c: OptionRegion<OwnedRegion<u128>> = round_trip(&r);
                vassert!(c.index(a) == r.index(a) && c.index(b) == r.index(b), "VF:serde.read_differs_after_round_trip");
                let (x, y) = (r.push(Some(&wide[..])), c.push(Some(&wide[..])));
                vassert!(x == y && c.index(y) == r.index(x), "VF:serde.read_differs_after_round_trip");
            }
            let mut fs = <FlatStack<MirrorRegion<usize>, IndexOptimized>>::default();
            for i in 0..n + 1 {
                fs.copy(WIDE[(v[1] as usize + i) % 6]);
            }
            let mut c = round_trip(&fs);
            for i in 0..5 {
                let x = WIDE[(v[2] as usize + i) % 6];
                fs.copy(x);
                c.copy(x);
                vassert!(fs.len() == c.len() && fs.iter().eq(c.iter()), "VF:serde.read_differs_after_round_trip");
                let own = |f: &FlatStack<MirrorRegion<usize>, IndexOptimized>| -> usize { collect_heap(|cb| f.heap_size(cb)).iter().map(|p| p.0).sum() };
                vassert!(own(&fs) == own(&c), "VF:serde.used_bytes_differ_after_round_trip");
            }
        }
        _ => {
            let mut fs = <FlatStack<MirrorRegion<usize>, IndexList<Vec<u32>, Vec<u64>>>>::default();
            for i in 0..n + 1 {
                fs.copy(WIDE[(v[1] as usize + i) % 6]);
            }
            let mut c = round_trip(&fs);
            for i in 0..5 {
                let x = WIDE[(v[2] as usize + i) % 6];
                fs.copy(x);
                c.copy(x);
                vassert!(fs.len() == c.len() && fs.iter().eq(c.iter()), "VF:serde.read_differs_after_round_trip");
            }
        }
    }
}
#[cfg(all(feature = "serde-harness", not(kani)))]
fn run_serde(v: &[u64]) {
    if v[0] >= 17 {
        serde_flatstack(v)
    } else {
        dispatch!(serde_twin, v)
    }
}
#[cfg(not(all(feature = "serde-harness", not(kani))))]
fn run_serde(_v: &[u64]) {}
fn pre_serde(v: &[u64]) -> bool {
    v[0] < 20 && v[1..].iter().all(|x| *x < 32)
}
fn doms_serde() -> Vec<Vec<u64>> {
    vec![range(20), range(4), range(4), range(4), range(4), range(4), range(6)]
}
pub fn harnesses_serde() -> Vec<H> {
    if cfg!(all(feature = "serde-harness", not(kani))) {
        vec![H { name: "serde_roundtrip", props: &["C16", "C11"], nargs: 7, pre: pre_serde, doms: doms_serde, run: run_serde, panic_ok: false,
            bound: "17 compositions + 3 FlatStacks (consecutive pairs over IndexOptimized; MirrorRegion<usize> over IndexOptimized and over IndexList with values up to 2^33): history of 0..3 pushes from a pool of 4-6 values (optionally after an earlier life ended by clear), serde_json round trip, then 4 further pushes on the original and on the restored copy: same indices, same reads at every issued index, same used bytes; the restored copy cleared and refilled like a default region", kani: false }]
    } else {
        vec![]
    }
}
