//! Bounded stand-ins: FlatStack iteration / extend / from_iter (C03), index-container iteration and extend (C05),
//! index-container heap bytes (C19), IntoOwned laws (C14), equality and ordering of read items (C15).
use crate::util::*;
use crate::H;
use flatcontainer::impls::deduplicate::ConsecutiveIndexPairs;
use flatcontainer::impls::index::{IndexContainer, IndexList, IndexOptimized, Stride};
use flatcontainer::{ColumnsRegion, FlatStack, IntoOwned, MirrorRegion, OwnedRegion, Push, Region, SliceRegion, StringRegion};

const ITEMS: [&[u8]; 4] = [&[], &[1], &[2, 3, 4], &[255, 0]];

// ---------------------------------------------------------------------------------------------------- C03 FlatStack as a sequence
// args: container kind (0 Vec, 1 IndexOptimized over CIP, 2 IndexList over CIP), k0..k3 (items), n (0..4), how (0 copy, 1 extend, 2 from_iter), probe
fn pre_fs(v: &[u64]) -> bool {
    v[0] < 3 && all_le(v, 1, 5, 3) && v[5] <= 4 && v[6] < 5
}
fn doms_fs() -> Vec<Vec<u64>> {
    vec![range(3), range(4), range(4), vec![2, 0], vec![1], range(5), range(5), vec![0, 1, 3, 4, 5, u64::MAX]]
}
macro_rules! fs_body {
    ($R:ty, $S:ty, $v:expr, $eq:expr) => {{
        let v: &[u64] = $v;
        let eq = $eq;
        let want: Vec<&[u8]> = v[1..5].iter().take(v[5] as usize).map(|k| ITEMS[*k as usize]).collect();
        let mut fs: FlatStack<$R, $S> = match v[6] {
            0 => {
                let mut fs = <FlatStack<$R, $S>>::default();
                vassert!(fs.is_empty() && fs.len() == 0, "VF:flatstack.default_not_empty");
                for (i, w) in want.as_slice().iter().enumerate() {
                    fs.copy(*w);
                    vassert!(fs.len() == i + 1 && !fs.is_empty(), "VF:flatstack.len_after_copy");
                }
                fs
            }
            1 => {
                let mut fs = <FlatStack<$R, $S>>::with_capacity(1);
                fs.extend(want.as_slice().iter().copied());
                fs
            }
            2 => want.as_slice().iter().copied().collect(),
            3 => {
                // iterators whose size_hint lower bound is inexact (filter) or mixed (exact prefix chained with a filter)
                let mut fs = <FlatStack<$R, $S>>::default();
                let half = want.len() / 2;
                fs.extend(want.as_slice()[..half].iter().copied().filter(|_| true));
                fs.extend(want.as_slice()[half..].iter().copied().take(1).chain(want.as_slice()[half..].iter().copied().skip(1).filter(|_| true)));
                fs
            }
            _ => want.as_slice().iter().copied().filter(|_| true).collect(),
        };
        let same = |fs: &FlatStack<$R, $S>| {
            vassert!(fs.len() == want.len() && fs.is_empty() == want.is_empty(), "VF:flatstack.len");
            for (i, w) in want.as_slice().iter().enumerate() {
                vassert!(eq(fs.get(i), *w), "VF:flatstack.get");
            }
            let mut it = fs.iter();
            let (lo, hi) = it.size_hint();
            vassert!(lo <= want.len() && hi.map_or(true, |h| h >= want.len()), "VF:flatstack.size_hint");
            let it2 = it.clone();
            let mut n = 0;
            while let Some(x) = it.next() {
                vassert!(n < want.len() && eq(x, want[n]), "VF:flatstack.iter");
                n += 1;
                let (lo, hi) = it.size_hint();
                vassert!(lo <= want.len() - n && hi.map_or(true, |h| h >= want.len() - n), "VF:flatstack.size_hint");
            }
            vassert!(n == want.len(), "VF:flatstack.iter_count");
            vassert!(it2.count() == want.len(), "VF:flatstack.cloned_iter_count");
            vassert!(fs.into_iter().count() == want.len(), "VF:flatstack.into_iter_count");
        };
        same(&fs);
        fs.reserve(3);
        same(&fs);
        let c = fs.clone();
        same(&c);
        // clone_from into destinations that are shorter, as long and longer than the source (the source may be empty)
        crate::section("VF:flatstack.clone_from");
        for d in [0usize, 1, 2, 4, 6] {
            let mut dest = <FlatStack<$R, $S>>::default();
            for i in 0..d {
                dest.copy(ITEMS[(i + 1) % 4]);
            }
            dest.clone_from(&fs);
            vassert!(dest.len() == want.len() && dest.is_empty() == want.is_empty(), "VF:flatstack.clone_from.len");
            for (i, w) in want.as_slice().iter().enumerate() {
                vassert!(eq(dest.get(i), *w), "VF:flatstack.clone_from.get");
            }
            vassert!(dest.iter().count() == want.len(), "VF:flatstack.clone_from.iter_count");
            let mut a = fs.clone();
            a.copy(ITEMS[2]);
            dest.copy(ITEMS[2]);
            vassert!(a.len() == dest.len() && eq(dest.get(dest.len() - 1), ITEMS[2]) && eq(a.get(a.len() - 1), ITEMS[2]), "VF:flatstack.clone_from.continues_differently_from_clone");
        }
        crate::section("");
        // fail-stop probe
        let probe = v[7] as usize;
        if probe >= want.len() {
            let ok = std::panic::catch_unwind(std::panic::AssertUnwindSafe(|| {
                let _ = fs.get(probe);
            }))
            .is_ok();
            vassert!(!ok, "VF:flatstack.get.returned_out_of_bounds");
        }
        fs.clear();
        vassert!(fs.is_empty() && fs.len() == 0 && fs.iter().count() == 0, "VF:flatstack.clear");
        same(&c);
    }};
}
fn run_fs(v: &[u64]) {
    match v[0] {
        0 => fs_body!(SliceRegion<MirrorRegion<u8>>, Vec<(usize, usize)>, v, |it: flatcontainer::impls::slice::ReadSlice<'_, MirrorRegion<u8>>, w: &[u8]| it.iter().eq(w.iter().copied())),
        1 => fs_body!(ConsecutiveIndexPairs<OwnedRegion<u8>>, IndexOptimized, v, |it: &[u8], w: &[u8]| it == w),
        _ => fs_body!(ConsecutiveIndexPairs<OwnedRegion<u8>>, IndexList<Vec<u32>, Vec<u64>>, v, |it: &[u8], w: &[u8]| it == w),
    }
}

// ---------------------------------------------------------------------------------------------------- C05 / C19 index containers: iteration, extend, heap bytes
// args: kind (0 IndexOptimized, 1 IndexList, 2 Vec<usize>), a0..a3 (alphabet positions), n (0..4), how (0 push, 1 extend)
const ALPHA: [u64; 12] = [0, 1, 2, 3, 5, 6, u32::MAX as u64, u32::MAX as u64 + 1, 1 << 63, u64::MAX, 4, 8];
fn pre_ix(v: &[u64]) -> bool {
    v[0] < 3 && all_le(v, 1, 5, 11) && v[5] <= 4 && v[6] < 4
}
fn doms_ix() -> Vec<Vec<u64>> {
    vec![range(3), range(12), range(12), range(12), range(12), range(5), range(4)]
}
/// The documented cost rule (README): stride-matching prefix free; then 4 bytes per entry until the first value above
/// u32::MAX, 8 bytes per entry from there on.
fn doc_cost(seq: &[usize]) -> usize {
    doc_cost_prefix(seq).0
}
/// (documented cost in bytes, length of the stride-absorbed prefix)
fn doc_cost_prefix(seq: &[usize]) -> (usize, usize) {
    let mut st = Stride::default();
    let mut k = 0;
    while k < seq.len() {
        // the rule, written independently of `Stride::push`
        let accepted = match k {
            0 => seq[0] == 0,
            1 => true,
            _ => {
                let s = seq[1];
                let strided = (0..k).all(|i| s.checked_mul(i) == Some(seq[i]));
                (strided && s.checked_mul(k) == Some(seq[k])) || seq[k] == seq[k - 1]
            }
        };
        if !accepted {
            break;
        }
        let _ = st.push(seq[k]);
        k += 1;
    }
    let mut cost = 0;
    let mut big = false;
    for x in &seq[k..] {
        big = big || *x > u32::MAX as usize;
        cost += if big { 8 } else { 4 };
    }
    (cost, k)
}
fn ix_body<C: IndexContainer<usize> + Clone>(v: &[u64], compressed: bool, list: bool) {
    let want: Vec<usize> = v[1..5].iter().take(v[5] as usize).map(|k| ALPHA[*k as usize] as usize).collect();
    crate::section("VF:index.sequence");
    let mut c = C::default();
    vassert!(c.is_empty() && c.len() == 0, "VF:index.default_not_empty");
    if v[6] == 0 {
        for (i, x) in want.as_slice().iter().enumerate() {
            c.push(*x);
            vassert!(c.len() == i + 1, "VF:index.len_after_push");
            for j in 0..=i {
                vassert!(c.index(j) == want[j], "VF:index.earlier_entry_changed");
            }
        }
    } else if v[6] == 1 {
        c.extend(want.as_slice().iter().copied());
    } else {
        // several extend batches (what SliceRegion does: one extend per pushed slice), or a push followed by extends
        let cut = if v[6] == 2 { want.len() / 2 } else { want.len().min(1) };
        if v[6] == 3 && !want.is_empty() {
            c.push(want[0]);
        } else {
            c.extend(want[..cut].iter().copied());
        }
        let mid = cut + (want.len() - cut) / 2;
        c.extend(want[cut..mid].iter().copied());
        c.extend(want[mid..].iter().copied());
    }
    vassert!(c.len() == want.len() && c.is_empty() == want.is_empty(), "VF:index.len");
    vassert!(c.iter().eq(want.as_slice().iter().copied()), "VF:index.iter");
    vassert!(c.clone().iter().count() == want.len(), "VF:index.clone_iter");
    // fail-stop: a position at or past the end never returns a value (FlatStack::get relies on it)
    for past in [want.len(), want.len() + 7].into_iter().filter(|_| v[6] == 0) {
        let got = std::panic::catch_unwind(std::panic::AssertUnwindSafe(|| c.index(past)));
        vassert!(got.is_err(), "VF:index.index_past_end_returned");
    }
    crate::section("VF:index.heap");
    let hp = collect_heap(|cb| c.heap_size(cb));
    vassert!(hp.iter().all(|p| p.0 <= p.1), "VF:index.heap.used_exceeds_capacity");
    let used: usize = hp.iter().map(|p| p.0).sum();
    if compressed {
        // (how many (used, capacity) pairs a container reports is not specified: only their sums are compared)
        // C18: every entry that is not absorbed by the stride is accounted with at least 4 bytes
        vassert!(used >= 4 * (want.len() - doc_cost_prefix(&want).1), "VF:index.heap.used_below_entries");
        vassert!(used == doc_cost(&want), "VF:index.heap.cost_differs_from_documented_rule");
    } else if list {
        let mut big = false;
        let mut cost = 0;
        for x in want.as_slice() {
            big = big || *x > u32::MAX as usize;
            cost += if big { 8 } else { 4 };
        }
        vassert!(used >= 4 * want.len(), "VF:index.heap.used_below_entries");
        vassert!(used == cost, "VF:index.heap.list_cost_differs_from_documented_rule");
    } else {
        vassert!(used == 8 * want.len(), "VF:index.heap.vec_cost");
    }
    crate::section("VF:index.reserve_changed_contents");
    c.reserve(2);
    vassert!(c.iter().eq(want.as_slice().iter().copied()), "VF:index.reserve_changed_contents");
    if compressed && doc_cost(&want) == 0 {
        // C19: a sequence the stride absorbs completely occupies no heap at all — also after a reservation
        crate::section("VF:index.heap");
        let cap: usize = collect_heap(|cb| c.heap_size(cb)).iter().map(|p| p.1).sum();
        vassert!(cap == 0, "VF:index.heap.reserve_allocates_for_strided_sequence");
    }
    crate::section("VF:index.clear");
    c.clear();
    vassert!(c.is_empty() && c.len() == 0 && c.iter().count() == 0, "VF:index.clear");
    c.push(7);
    vassert!(c.len() == 1 && c.index(0) == 7, "VF:index.push_after_clear");
    crate::section("VF:index.with_capacity_not_empty");
    let w = C::with_capacity(3);
    vassert!(w.is_empty(), "VF:index.with_capacity_not_empty");
}
fn run_ix(v: &[u64]) {
    match v[0] {
        0 => ix_body::<IndexOptimized>(v, true, false),
        1 => ix_body::<IndexList<Vec<u32>, Vec<u64>>>(v, false, true),
        _ => ix_body::<Vec<usize>>(v, false, false),
    }
}

// dense-index regions under an optimised FlatStack spend no heap on their own indices (C19)
fn pre_dense(v: &[u64]) -> bool {
    v[0] < 2 && v[1] <= 40 && v[2] < 4
}
fn doms_dense() -> Vec<Vec<u64>> {
    vec![range(2), vec![0, 1, 2, 3, 17, 40], range(4)]
}
/// What a FlatStack reports beyond its region: the pairs of `total` that remain after removing, one for one, the pairs
/// a twin region with the same history reports (order and grouping of the callback invocations are not specified, so
/// nothing is assumed about positions).  `None` when the twin's pairs are not all found (capacities follow an
/// unspecified policy): then only the summed used bytes can be compared.
fn own_index_pairs(total: &[(usize, usize)], region: &[(usize, usize)]) -> Option<Vec<(usize, usize)>> {
    let mut rest = total.to_vec();
    for p in region {
        let k = rest.as_slice().iter().position(|q| q == p)?;
        rest.swap_remove(k);
    }
    Some(rest)
}
fn check_own_indices_free(total: Vec<(usize, usize)>, region: Vec<(usize, usize)>) {
    let used = |p: &[(usize, usize)]| -> usize { p.iter().map(|x| x.0).sum() };
    // used bytes: whatever the stack reports beyond its region is what its own indices cost
    vassert!(used(&total) == used(&region), "VF:dense.flatstack_indices_cost_heap");
    if let Some(own) = own_index_pairs(&total, &region) {
        vassert!(own.iter().all(|p| p.1 == 0), "VF:dense.flatstack_indices_allocate_heap");
    }
}
fn run_dense(v: &[u64]) {
    let n = v[1] as usize;
    if v[0] == 0 {
        type R = ConsecutiveIndexPairs<StringRegion>;
        let mut fs = <FlatStack<R, IndexOptimized>>::default();
        // (the twin region receives exactly what the stack forwards to its region)
        let mut twin = R::default();
        if v[2] >= 2 {
            // an earlier life of the stack: only empty items (or mixed ones), then clear
            for i in 0..3 {
                let w = if v[2] == 2 { "" } else { string(i) };
                fs.copy(w);
                let _ = twin.push(w);
            }
            fs.clear();
            twin.clear();
        }
        for i in 0..n {
            fs.copy(string(v[2] + i as u64));
            let _ = twin.push(string(v[2] + i as u64));
            if i == 1 {
                fs.reserve(3);
            }
        }
        // a second batch through extend (which reserves by size_hint) on the populated stack
        fs.extend((0..n).map(|i| string(v[2] + 1 + i as u64)));
        for i in 0..n {
            let _ = twin.push(string(v[2] + 1 + i as u64));
        }
        // a stack pre-sized from this one absorbs the same contents without spending anything on its own indices either
        let mut fs2 = <FlatStack<R, IndexOptimized>>::merge_capacity([&fs, &fs].into_iter());
        let mut twin2 = R::merge_regions([&twin, &twin].into_iter());
        for i in 0..n {
            fs2.copy(string(v[2] + i as u64));
            let _ = twin2.push(string(v[2] + i as u64));
        }
        check_own_indices_free(collect_heap(|cb| fs2.heap_size(cb)), collect_heap(|cb| twin2.heap_size(cb)));
        check_own_indices_free(collect_heap(|cb| fs.heap_size(cb)), collect_heap(|cb| twin.heap_size(cb)));
    } else {
        type R = ColumnsRegion<MirrorRegion<u8>>;
        let mut fs = <FlatStack<R, IndexOptimized>>::default();
        let mut twin = R::default();
        for i in 0..n {
            fs.copy(ITEMS[(v[2] as usize + i) % 4]);
            let _ = twin.push(ITEMS[(v[2] as usize + i) % 4]);
        }
        check_own_indices_free(collect_heap(|cb| fs.heap_size(cb)), collect_heap(|cb| twin.heap_size(cb)));
    }
}

// ---------------------------------------------------------------------------------------------------- C14 IntoOwned laws
// args: kind (0 slice, 1 columns, 2 option, 3 result, 4 nested slice), x (value selector), t (prior target selector), rep (0 region-backed, 1 owned-borrowed)
fn pre_io(v: &[u64]) -> bool {
    v[0] < 8 && v[1] < 4 && v[2] < 5 && v[3] < 2
}
fn doms_io() -> Vec<Vec<u64>> {
    vec![range(8), range(4), range(5), range(2)]
}
fn run_io(v: &[u64]) {
    let x = ITEMS[v[1] as usize];
    let targets: [Vec<u8>; 5] = [vec![], vec![9], vec![9, 9, 9, 9], vec![2, 3, 4], vec![1, 1]];
    match v[0] {
        0 => {
            type R = SliceRegion<MirrorRegion<u8>>;
            let mut r = R::default();
            let _ = r.push([7u8, 7].as_slice());
            let i = r.push(x);
            // (the item has a predecessor and successors in its source region)
            let _ = r.push([8u8, 8, 8].as_slice());
            let _ = r.push([9u8].as_slice());
            let owned0: Vec<u8> = x.to_vec();
            let item = if v[3] == 0 { r.index(i) } else { IntoOwned::borrow_as(&owned0) };
            vassert!(item.into_owned() == x, "VF:intoowned.slice.into_owned");
            let o = item.into_owned();
            let back = <<R as Region>::ReadItem<'_> as IntoOwned>::borrow_as(&o);
            vassert!(back.iter().eq(item.iter()) && back == item, "VF:intoowned.slice.borrow_as");
            let mut t = targets[v[2] as usize].clone();
            item.clone_onto(&mut t);
            vassert!(t == x, "VF:intoowned.slice.clone_onto");
            vassert!(R::reborrow(item) == item, "VF:intoowned.slice.reborrow");
            // region-to-region push of the read item and of a borrow of its owned form
            let mut r2 = R::default();
            let _ = r2.push([1u8].as_slice());
            let j = r2.push(item);
            let j2 = r2.push(back);
            vassert!(r2.index(j) == item && r2.index(j2) == item, "VF:intoowned.slice.region_to_region");
            vassert!(r2.index(j).iter().eq(x.iter().copied()), "VF:intoowned.slice.region_to_region_value");
            // the read item is one more input form: same indices as the canonical form on a twin in the same state
            let mut r2c = R::default();
            let _ = r2c.push([1u8].as_slice());
            let jc = r2c.push(x);
            let jc2 = r2c.push(x);
            vassert!(j == jc && j2 == jc2, "VF:intoowned.slice.region_to_region_index");
        }
        7 => {
            // consecutive pairs over a slice region whose own offsets are compressed: element indices of one pushed item
            // leave the stride inside a single IndexContainer::extend
            crate::section("VF:intoowned.cip_opt");
            type R = ConsecutiveIndexPairs<SliceRegion<MirrorRegion<usize>, IndexOptimized>>;
            let pool: [&[usize]; 5] = [&[0, 3, 6], &[9, 12, 13, 14], &[], &[7], &[5, 5, 6]];
            let order = [v[1] as usize % 5, (v[1] as usize + v[2] as usize + 1) % 5, (v[2] as usize + 3) % 5, 1, 0];
            let mut r = R::default();
            let mut want: Vec<&[usize]> = Vec::new();
            for round in 0..2 {
                for k in order {
                    let i = if v[3] == 0 { r.push(pool[k]) } else { r.push(pool[k].to_vec()) };
                    want.push(pool[k]);
                    vassert!(i == want.len() - 1, "VF:intoowned.cip_opt.index");
                    for (j, w) in want.iter().enumerate() {
                        let it = r.index(j);
                        vassert!(it.len() == w.len() && it.iter().eq(w.iter().copied()), "VF:intoowned.cip_opt.read");
                    }
                }
                if round == 0 {
                    r.clear();
                    want.clear();
                }
            }
        }
        6 => {
            // the owned-borrowed read item as input form, over a fan-out inner region (its elements are rebuilt through
            // `IntoOwned::borrow_as` of the element type)
            crate::section("VF:intoowned.optslice");
            type R = SliceRegion<flatcontainer::OptionRegion<StringRegion>>;
            let owned: Vec<Option<String>> = (0..(v[1] as usize + 1)).map(|i| if (i + v[2] as usize) % 3 == 0 { None } else { Some(string(i as u64 + v[2]).to_string()) }).collect();
            let (mut a, mut b) = (R::default(), R::default());
            let _ = a.push(&owned[..1].to_vec());
            let _ = b.push(&owned[..1].to_vec());
            let ia = a.push(&owned);
            let item = <<R as Region>::ReadItem<'_> as IntoOwned>::borrow_as(&owned);
            vassert!(item.into_owned() == owned, "VF:intoowned.optslice.into_owned");
            let ib = b.push(item);
            vassert!(ia == ib, "VF:intoowned.optslice.index");
            vassert!(a.index(ia).into_owned() == owned && b.index(ib).into_owned() == owned, "VF:intoowned.optslice.read");
            let used = |r: &R| -> usize { collect_heap(|cb| r.heap_size(cb)).iter().map(|p| p.0).sum() };
            vassert!(used(&a) == used(&b), "VF:intoowned.optslice.used_bytes");
        }
        5 => {
            // region-to-region copy into a composition that relies on the inner region's dense indices
            crate::section("VF:intoowned.cip");
            type S = SliceRegion<MirrorRegion<u8>>;
            type R = ConsecutiveIndexPairs<S>;
            let mut src = S::default();
            let _ = src.push([7u8, 7].as_slice());
            let i = src.push(x);
            let owned0: Vec<u8> = x.to_vec();
            let item = if v[3] == 0 { src.index(i) } else { IntoOwned::borrow_as(&owned0) };
            let (mut t, mut twin) = (R::default(), R::default());
            let tail = ITEMS[v[2] as usize % 4];
            let k0 = t.push([1u8, 2, 3].as_slice());
            let k1 = t.push(item);
            let k2 = t.push(tail);
            let k3 = t.push(item);
            let w = (twin.push([1u8, 2, 3].as_slice()), twin.push(x), twin.push(tail), twin.push(x));
            vassert!((k0, k1, k2, k3) == w, "VF:intoowned.cip.index");
            // the same composition fed plain slices: every read item describes exactly its own elements
            crate::section("VF:intoowned.cip.accessors");
            let mut u = R::default();
            let fed: [&[u8]; 4] = [&[1, 2, 3], x, tail, &[9]];
            let ks: Vec<usize> = fed.iter().map(|f| u.push(*f)).collect();
            for (k, f) in ks.as_slice().iter().zip(fed.iter()) {
                let it = u.index(*k);
                vassert!(it.len() == f.len() && it.is_empty() == f.is_empty(), "VF:intoowned.cip.accessors.len");
                vassert!(it.iter().eq(f.iter().copied()), "VF:intoowned.cip.accessors.iter");
                for (p, e) in f.iter().enumerate() {
                    vassert!(it.get(p) == *e, "VF:intoowned.cip.accessors.get");
                }
                let past = std::panic::catch_unwind(std::panic::AssertUnwindSafe(|| it.get(f.len())));
                vassert!(past.is_err(), "VF:intoowned.cip.accessors.get_past_end_returned");
            }
            // ... also in a second life after clear (the slice region restarts at position 0)
            crate::section("VF:intoowned.cip.after_clear");
            u.clear();
            let ks2: Vec<usize> = fed.iter().rev().map(|f| u.push(*f)).collect();
            vassert!(ks2 == vec![0, 1, 2, 3], "VF:intoowned.cip.after_clear.index");
            for (k, f) in ks2.as_slice().iter().zip(fed.iter().rev()) {
                let it = u.index(*k);
                vassert!(it.len() == f.len() && it.iter().eq(f.iter().copied()), "VF:intoowned.cip.after_clear.read");
            }
            crate::section("VF:intoowned.cip");
            vassert!(t.index(k0).iter().eq([1u8, 2, 3]) && t.index(k1).iter().eq(x.iter().copied()) && t.index(k2).iter().eq(tail.iter().copied()) && t.index(k3).iter().eq(x.iter().copied()), "VF:intoowned.cip.read");
        }
        1 => {
            type R = ColumnsRegion<MirrorRegion<u8>>;
            let mut r = R::default();
            let _ = r.push([7u8, 7, 7].as_slice());
            let i = r.push(x);
            let owned0: Vec<u8> = x.to_vec();
            let item = if v[3] == 0 { r.index(i) } else { IntoOwned::borrow_as(&owned0) };
            vassert!(item.into_owned() == x, "VF:intoowned.columns.into_owned");
            let o = item.into_owned();
            let back = <<R as Region>::ReadItem<'_> as IntoOwned>::borrow_as(&o);
            vassert!(back.iter().eq(item.iter()), "VF:intoowned.columns.borrow_as");
            let mut t = targets[v[2] as usize].clone();
            item.clone_onto(&mut t);
            vassert!(t == x, "VF:intoowned.columns.clone_onto");
            let mut r2 = R::default();
            let j = r2.push(item);
            let j2 = r2.push(back);
            vassert!(r2.index(j).iter().eq(x.iter().copied()) && r2.index(j2).iter().eq(x.iter().copied()), "VF:intoowned.columns.region_to_region");
            vassert!(j == 0 && j2 == 1, "VF:intoowned.columns.region_to_region_index");
        }
        2 => {
            let item: Option<&[u8]> = if v[1] == 0 { None } else { Some(x) };
            let want: Option<Vec<u8>> = item.map(|s| s.to_vec());
            vassert!(item.into_owned() == want, "VF:intoowned.option.into_owned");
            let mut t: Option<Vec<u8>> = if v[2] == 0 { None } else { Some(targets[v[2] as usize].clone()) };
            item.clone_onto(&mut t);
            vassert!(t == want, "VF:intoowned.option.clone_onto");
            let back = <Option<&[u8]> as IntoOwned>::borrow_as(&t);
            vassert!(back == item, "VF:intoowned.option.borrow_as");
        }
        3 => {
            let item: Result<&[u8], &str> = if v[1] % 2 == 0 { Ok(x) } else { Err(string(v[1])) };
            let want: Result<Vec<u8>, String> = item.map(|s| s.to_vec()).map_err(|s| s.to_string());
            vassert!(item.into_owned() == want, "VF:intoowned.result.into_owned");
            let mut t: Result<Vec<u8>, String> = if v[2] % 2 == 0 { Ok(targets[v[2] as usize].clone()) } else { Err("zz".to_string()) };
            item.clone_onto(&mut t);
            vassert!(t == want, "VF:intoowned.result.clone_onto");
            let back = <Result<&[u8], &str> as IntoOwned>::borrow_as(&t);
            vassert!(back == item, "VF:intoowned.result.borrow_as");
        }
        _ => {
            crate::section("VF:intoowned.nested");
            type R = SliceRegion<SliceRegion<MirrorRegion<u8>>>;
            let val: Vec<Vec<u8>> = vec![x.to_vec(), vec![], ITEMS[(v[1] as usize + 1) % 4].to_vec()];
            let mut r = R::default();
            let i = r.push(&val);
            let item = if v[3] == 0 { r.index(i) } else { IntoOwned::borrow_as(&val) };
            vassert!(item.into_owned() == val, "VF:intoowned.nested.into_owned");
            let mut t: Vec<Vec<u8>> = match v[2] {
                0 => vec![],
                1 => vec![vec![9, 9, 9, 9, 9]],
                2 => vec![vec![], vec![1], vec![2], vec![3], vec![4]],
                3 => val.clone(),
                _ => vec![vec![5]; 3],
            };
            item.clone_onto(&mut t);
            vassert!(t == val, "VF:intoowned.nested.clone_onto");
            let mut r2 = R::default();
            let j = r2.push(item);
            vassert!(r2.index(j).into_owned() == val, "VF:intoowned.nested.region_to_region");
        }
    }
}

// ---------------------------------------------------------------------------------------------------- C15 equality and ordering
// args: na nb nc (lengths 0..2), a0 a1 b0 b1 c0 c1 (bytes from a 3-value domain), ra rb (representation: 0 region A, 1 region B, 2 owned-borrowed)
fn pre_cmp(v: &[u64]) -> bool {
    all_le(v, 0, 3, 2) && all_le(v, 3, 9, 255) && v[9] < 3 && v[10] < 3
}
fn doms_cmp() -> Vec<Vec<u64>> {
    let b = vec![0u64, 1, 255];
    vec![range(3), range(3), range(3), b.clone(), b.clone(), b.clone(), vec![1], vec![0, 1], vec![255], range(3), range(3)]
}
fn run_cmp(v: &[u64]) {
    type R = SliceRegion<MirrorRegion<u8>>;
    let a: Vec<u8> = v[3..5].iter().take(v[0] as usize).map(|x| *x as u8).collect();
    let b: Vec<u8> = v[5..7].iter().take(v[1] as usize).map(|x| *x as u8).collect();
    let c: Vec<u8> = v[7..9].iter().take(v[2] as usize).map(|x| *x as u8).collect();
    let mut ra = R::default();
    let mut rb = R::default();
    let _ = rb.push([3u8].as_slice());
    let ia = [ra.push(&a), ra.push(&b), ra.push(&c)];
    let ib = [rb.push(&a), rb.push(&b), rb.push(&c)];
    let vals = [&a, &b, &c];
    let get = |k: usize, rep: u64| match rep {
        0 => ra.index(ia[k]),
        1 => rb.index(ib[k]),
        _ => <<R as Region>::ReadItem<'_> as IntoOwned>::borrow_as(vals[k]),
    };
    let (x, y, z) = (get(0, v[9]), get(1, v[10]), get(2, (v[9] + v[10]) % 3));
    vassert!((x == y) == (a == b), "VF:cmp.eq");
    vassert!(x.partial_cmp(&y) == a.partial_cmp(&b), "VF:cmp.partial_cmp");
    vassert!(x.cmp(&y) == a.cmp(&b), "VF:cmp.cmp");
    // the comparison operators (a type may override lt / le / gt / ge / ne separately from partial_cmp)
    vassert!((x < y) == (a < b) && (x <= y) == (a <= b) && (x > y) == (a > b) && (x >= y) == (a >= b) && (x != y) == (a != b), "VF:cmp.operators");
    vassert!(x.max(y).into_owned() == a.clone().max(b.clone()) && x.min(y).into_owned() == a.clone().min(b.clone()), "VF:cmp.max_min");
    vassert!(x <= x && x >= x && !(x < x) && !(x > x) && !(x != x), "VF:cmp.operators_reflexive");
    vassert!(x == x && x.cmp(&x) == std::cmp::Ordering::Equal, "VF:cmp.reflexive");
    vassert!((x == y) == (x.cmp(&y) == std::cmp::Ordering::Equal), "VF:cmp.eq_agrees_with_cmp");
    vassert!(x.cmp(&y) == y.cmp(&x).reverse(), "VF:cmp.antisymmetric");
    if x <= y && y <= z {
        vassert!(x <= z, "VF:cmp.transitive");
    }
    // same content in the other representation compares equal
    vassert!(get(0, 0) == get(0, 1) && get(0, 1) == get(0, 2), "VF:cmp.representations_equal");
}

pub fn harnesses() -> Vec<H> {
    vec![
        H { name: "flatstack_sequence", props: &["C03", "C09", "C13"], nargs: 8, pre: pre_fs, doms: doms_fs, run: run_fs, panic_ok: false,
            bound: "FlatStack over SliceRegion<MirrorRegion<u8>>/Vec, ConsecutiveIndexPairs<OwnedRegion<u8>>/IndexOptimized and /IndexList: 0..4 items from a 4-value pool built by copy / extend / from_iter (exact-size, filtered and chained iterators); get, iter, cloned iterator, size_hint, into_iter, reserve, clone, clone_from into destinations holding 0/1/2/4/6 unrelated items (then an identical further copy), clear; out-of-bounds probe", kani: false },
        H { name: "index_containers", props: &["C05", "C19", "C08", "C10", "C18", "C01", "C02", "C03", "C13"], nargs: 7, pre: pre_ix, doms: doms_ix, run: run_ix, panic_ok: false,
            bound: "IndexOptimized, IndexList<Vec<u32>,Vec<u64>>, Vec<usize>: all sequences of length 0..4 over the 12-value transition alphabet {0,1,2,3,4,5,6,8,u32::MAX,u32::MAX+1,2^63,usize::MAX} by push, one extend, two-three extend batches, or a push followed by extends; index/len/iter/clone/reserve/clear/with_capacity; heap bytes equal the documented cost rule; a fully strided sequence allocates nothing, also after reserve", kani: false },
        H { name: "dense_indices_free", props: &["C19"], nargs: 3, pre: pre_dense, doms: doms_dense, run: run_dense, panic_ok: false,
            bound: "FlatStack<ConsecutiveIndexPairs<StringRegion>, IndexOptimized> and FlatStack<ColumnsRegion<MirrorRegion<u8>>, IndexOptimized> with 0..40 items (optionally after an earlier life of empty or mixed items and a clear) by copy, a reserve in between and a second batch by extend (first composition): own index container reports 0 used and 0 allocated bytes", kani: false },
        H { name: "into_owned_laws", props: &["C14", "C20", "C12", "C13", "C08", "C01"], nargs: 4, pre: pre_io, doms: doms_io, run: run_io, panic_ok: false,
            bound: "read items of SliceRegion<MirrorRegion<u8>>, ColumnsRegion<MirrorRegion<u8>>, Option<&[u8]>, Result<&[u8],&str>, SliceRegion<SliceRegion<..>>: 4 values x 5 prior clone_onto targets (empty/shorter/longer/equal/other variant) x region-backed and owned-borrowed; region-to-region push (indices compared with the canonical form on a twin), also into ConsecutiveIndexPairs<SliceRegion<..>> followed by further items; owned-borrowed read item of SliceRegion<OptionRegion<StringRegion>> versus &Vec (index, reads, used bytes)", kani: false },
        H { name: "dense_owned_forms", props: &["C12", "C20", "C01"], nargs: 8, pre: pre_dof, doms: doms_dof, run: run_dof, panic_ok: false,
            bound: "ConsecutiveIndexPairs<OwnedRegion<u8>> and ColumnsRegion<OwnedRegion<u8>>: three items (rows of 1..3 cells) with lengths over {0,1,3,9,40}, each pushed as a slice, as an owned Vec of exact capacity or as an owned Vec with 64 bytes of spare capacity; optionally after an earlier life and clear: indices 0,1,2 and every row re-read after every push", kani: false },
        H { name: "value_kinds", props: &["C01", "C14"], nargs: 3, pre: pre_vk, doms: doms_vk, run: run_vk, panic_ok: false,
            bound: "MirrorRegion<f64> / <f32>, OptionRegion<MirrorRegion<f64>>, SliceRegion<MirrorRegion<f64>> over 7 bit patterns (+0, -0, quiet NaN, NaN with payload and sign, 1.5, inf, smallest subnormal) compared by bits; tuple regions of arity 1 and 3 and a slice of triples; zero-sized elements as owned vectors into a populated OwnedRegion<()> and by value into a Vec<()> region: read item, into_owned, borrow_as and clone_onto over 7 prior targets (incl. the opposite zero / other field values / longer and shorter vectors)", kani: false },
        H { name: "heap_composites", props: &["C18"], nargs: 3, pre: pre_hc, doms: doms_hc, run: run_hc, panic_ok: false,
            bound: "tuple regions whose fields own several allocations ((slice of strings, string), (result of string / bytes, byte), a tuple in a tuple) and a result region with a heap-less Ok side, with 0..3 items: summed used bytes equal those of the fields kept separately / are at least the payload; Vec<[u8;32]> and Vec<(u32,u64)> regions: used bytes at least size_of::<T>() per element", kani: false },
        H { name: "ref_forms", props: &["C20", "C01", "C02"], nargs: 5, pre: pre_rf, doms: doms_rf, run: run_rf, panic_ok: false,
            bound: "ResultRegion<StringRegion, StringRegion>, OptionRegion<StringRegion>, TupleABRegion<StringRegion, OwnedRegion<u8>>: three items of a 4-value pool, each step in the reference form (&Result, &Option, &tuple) or the owned form (all 8 masks), against an owned-form twin: same index, same stored bytes after every step, every issued index re-read", kani: false },
        H { name: "read_item_ordering", props: &["C15"], nargs: 11, pre: pre_cmp, doms: doms_cmp, run: run_cmp, panic_ok: false,
            bound: "SliceRegion<MirrorRegion<u8>>: triples of u8 vectors of length 0..2 (native: bytes over {0,1,255}), each side region-backed from two different regions or owned-borrowed: ==, !=, <, <=, >, >=, partial_cmp, cmp, max, min equal those of the Vecs; reflexive, antisymmetric, transitive", kani: false },
    ]
}

// ---------------------------------------------------------------------------------------------------- dense regions over OwnedRegion: owned vectors with their own capacities
// `OwnedRegion::push(Vec<T>)` hands the vector itself to the storage (`PushStorage<&mut Vec<T>>`): the pushed vector's
// allocation (longer than everything stored so far, or short with a large spare capacity) must not leak into what
// index k reads.
// args: l0 l1 l2 (length classes of three items), f0 f1 f2 (forms: 0 slice, 1 owned Vec of exact capacity, 2 owned Vec with 64 spare), comp (0 CIP, 1 columns), life (0/1 earlier life + clear)
const DOF_LEN: [usize; 5] = [0, 1, 3, 9, 40];
fn pre_dof(v: &[u64]) -> bool {
    all_le(v, 0, 3, 4) && all_le(v, 3, 6, 2) && v[6] < 2 && v[7] < 2
}
fn doms_dof() -> Vec<Vec<u64>> {
    vec![range(5), range(5), vec![0, 2, 4], range(3), range(3), vec![0, 1], range(2), range(2)]
}
fn run_dof(v: &[u64]) {
    let item = |k: usize| -> Vec<u8> { (0..DOF_LEN[v[k] as usize]).map(|j| (16 * (k + 1) + j) as u8).collect() };
    let owned = |w: &[u8], form: u64| -> Vec<u8> {
        let mut o = Vec::with_capacity(w.len() + if form == 2 { 64 } else { 0 });
        o.extend_from_slice(w);
        o
    };
    if v[6] == 0 {
        type R = ConsecutiveIndexPairs<OwnedRegion<u8>>;
        let mut r = R::default();
        if v[7] == 1 {
            let _ = r.push(&[9u8, 9, 9, 9, 9][..]);
            let _ = r.push(vec![8u8; 12]);
            r.clear();
        }
        let mut want: Vec<Vec<u8>> = Vec::new();
        for k in 0..3 {
            let w = item(k);
            let i = match v[3 + k] {
                0 => r.push(w.as_slice()),
                f => r.push(owned(&w, f)),
            };
            vassert!(i == k, "VF:dense_owned.index_not_consecutive");
            want.push(w);
            for (j, x) in want.iter().enumerate() {
                vassert!(r.index(j) == x.as_slice(), "VF:dense_owned.kth_read_differs");
            }
        }
    } else {
        type C = ColumnsRegion<OwnedRegion<u8>>;
        let mut r = C::default();
        if v[7] == 1 {
            let _ = r.push(vec![vec![7u8; 5], vec![6u8; 2]]);
            r.clear();
        }
        // rows of 1..3 cells; the cells of row k are prefixes of item k
        let mut want: Vec<Vec<Vec<u8>>> = Vec::new();
        for k in 0..3 {
            let w = item(k);
            let row: Vec<Vec<u8>> = (0..=k).map(|c| w[..w.len().saturating_sub(c)].to_vec()).collect();
            let i = match v[3 + k] {
                0 => r.push(row.iter().map(|c| c.as_slice()).collect::<Vec<&[u8]>>()),
                f => r.push(row.iter().map(|c| owned(c, f)).collect::<Vec<Vec<u8>>>()),
            };
            vassert!(i == k, "VF:dense_owned.index_not_consecutive");
            want.push(row);
            for (j, x) in want.iter().enumerate() {
                let got = r.index(j);
                vassert!(got.len() == x.len() && got.iter().zip(x.iter()).all(|(a, b)| a == b.as_slice()), "VF:dense_owned.kth_row_differs");
            }
        }
    }
}

// ---------------------------------------------------------------------------------------------------- value kinds the byte-based catalogue lacks
// Floating-point values whose `==` is not identity (signed zeros, NaN payloads) through MirrorRegion, and tuple regions of
// odd arity (1 and 3 fields): the read item and each of its owned conversions describe exactly the pushed value
// (compared by bits), whatever the `clone_onto` target held before.
// args: kind (0 f64, 1 f32, 2 option<f64>, 3 slice<f64>, 4 one-tuple, 5 triple, 7 OwnedRegion<()> owned vectors, 8 Vec<()> by value, 9 slice of triples), x (value selector), t (prior target selector)
const F64S: [u64; 7] = [0x0000_0000_0000_0000, 0x8000_0000_0000_0000, 0x7ff8_0000_0000_0000, 0xfff0_0000_0000_0001, 0x3ff8_0000_0000_0000, 0x7ff0_0000_0000_0000, 0x0000_0000_0000_0001];
fn pre_vk(v: &[u64]) -> bool {
    v[0] < 10 && v[1] < 7 && v[2] < 7
}
fn doms_vk() -> Vec<Vec<u64>> {
    vec![range(10), range(7), range(7)]
}

fn run_vk(v: &[u64]) {
    use flatcontainer::impls::tuple::{TupleABCRegion, TupleARegion};
    use flatcontainer::OptionRegion;
    let (xb, tb) = (F64S[v[1] as usize], F64S[v[2] as usize]);
    match v[0] {
        0 => {
            let (x, t0) = (f64::from_bits(xb), f64::from_bits(tb));
            let mut r = <MirrorRegion<f64>>::default();
            let _ = r.push(t0);
            let i = r.push(x);
            let it = r.index(i);
            vassert!(it.to_bits() == xb, "VF:values.float.read_differs");
            vassert!(it.into_owned().to_bits() == xb, "VF:values.float.into_owned_differs");
            let mut t = t0;
            it.clone_onto(&mut t);
            vassert!(t.to_bits() == xb, "VF:values.float.clone_onto_differs");
            vassert!(<f64 as IntoOwned>::borrow_as(&t).to_bits() == xb, "VF:values.float.borrow_as_differs");
        }
        1 => {
            let (x, t0) = (f32::from_bits((xb >> 32) as u32), f32::from_bits((tb >> 32) as u32));
            let mut r = <MirrorRegion<f32>>::default();
            let i = r.push(x);
            let it = r.index(i);
            vassert!(it.to_bits() == x.to_bits() && it.into_owned().to_bits() == x.to_bits(), "VF:values.float.read_differs");
            let mut t = t0;
            it.clone_onto(&mut t);
            vassert!(t.to_bits() == x.to_bits(), "VF:values.float.clone_onto_differs");
        }
        2 => {
            let (x, t0) = (f64::from_bits(xb), f64::from_bits(tb));
            let mut r = <OptionRegion<MirrorRegion<f64>>>::default();
            let i = r.push(Some(x));
            let it = r.index(i);
            vassert!(it.map(|f| f.to_bits()) == Some(xb), "VF:values.float.read_differs");
            let mut t = Some(t0);
            it.clone_onto(&mut t);
            vassert!(t.map(|f| f.to_bits()) == Some(xb), "VF:values.float.clone_onto_differs");
        }
        3 => {
            let (x, t0) = (f64::from_bits(xb), f64::from_bits(tb));
            let mut r = <SliceRegion<MirrorRegion<f64>>>::default();
            let i = r.push([x, t0, x].as_slice());
            let it = r.index(i);
            let bits = |w: &[f64]| -> Vec<u64> { w.iter().map(|f| f.to_bits()).collect() };
            vassert!(it.iter().map(|f| f.to_bits()).collect::<Vec<_>>() == vec![xb, tb, xb], "VF:values.float.read_differs");
            vassert!(bits(&it.into_owned()) == vec![xb, tb, xb], "VF:values.float.into_owned_differs");
            // a longer target whose overlapping prefix holds the other values
            let mut t = vec![t0, x, t0, t0, x];
            it.clone_onto(&mut t);
            vassert!(bits(&t) == vec![xb, tb, xb], "VF:values.float.clone_onto_differs");
        }
        4 => {
            let (a, b) = (v[1] as u8, v[2] as u8 + 100);
            let mut r = <TupleARegion<MirrorRegion<u8>>>::default();
            let _ = r.push((b,));
            let i = r.push((a,));
            let it = r.index(i);
            vassert!(it == (a,) && it.into_owned() == (a,), "VF:values.tuple.read_differs");
            let mut t = (b,);
            it.clone_onto(&mut t);
            vassert!(t == (a,), "VF:values.tuple.clone_onto_differs");
        }
        5 => {
            type R = TupleABCRegion<MirrorRegion<u8>, OwnedRegion<u8>, StringRegion>;
            let words = ["", "a", "é𝄞", "hello", "xyz", "q", "zz"];
            let x = (v[1] as u8, vec![v[1] as u8; v[1] as usize % 4], words[v[1] as usize].to_string());
            let t0 = (v[2] as u8 + 100, vec![9u8; (v[2] as usize + 1) % 5], words[(v[2] as usize + 3) % 7].to_string() + "!");
            let mut r = R::default();
            let _ = r.push((t0.0, t0.1.as_slice(), t0.2.as_str()));
            let i = r.push((x.0, x.1.as_slice(), x.2.as_str()));
            let it = r.index(i);
            vassert!(it.0 == x.0 && it.1 == x.1.as_slice() && it.2 == x.2, "VF:values.tuple.read_differs");
            vassert!(it.into_owned() == x, "VF:values.tuple.into_owned_differs");
            let mut t = t0.clone();
            it.clone_onto(&mut t);
            vassert!(t == x, "VF:values.tuple.clone_onto_differs");
        }
        7 => {
            // zero-sized elements in the owned-vector form, into an empty and into a populated region
            crate::section("VF:values.zst.push_panicked");
            let mut r = <OwnedRegion<()>>::default();
            let a = r.push(vec![(); v[1] as usize % 4]);
            let b = r.push(vec![(); v[2] as usize % 3 + 1]);
            let c = r.push([(), ()].as_slice());
            vassert!(r.index(a).len() == v[1] as usize % 4 && r.index(b).len() == v[2] as usize % 3 + 1 && r.index(c).len() == 2, "VF:values.zst.read_differs");
        }
        8 => {
            // a plain vector of zero-sized elements as a region, pushed by value and by reference
            crate::section("VF:values.zst.push_panicked");
            let mut r = <Vec<()>>::default();
            let mut idx = Vec::new();
            for k in 0..(v[1] as usize % 4 + 1) {
                idx.push(if (k + v[2] as usize) % 2 == 0 { <Vec<()> as Push<()>>::push(&mut r, ()) } else { <Vec<()> as Push<&()>>::push(&mut r, &()) });
            }
            let _last: &() = Region::index(&r, idx.len() - 1);
            vassert!(idx.as_slice().iter().enumerate().all(|(k, i)| *i == k) && r.len() == idx.len(), "VF:values.zst.read_differs");
        }
        _ => {
            type E = TupleABCRegion<MirrorRegion<u8>, MirrorRegion<u8>, MirrorRegion<u8>>;
            let x: Vec<(u8, u8, u8)> = (0..(v[1] as u8 % 4)).map(|k| (k, k + 10, k + 20)).collect();
            let t0: Vec<(u8, u8, u8)> = (0..(v[2] as u8 % 5)).map(|k| (k + 100, k + 110, k + 120)).collect();
            let mut r = <SliceRegion<E>>::default();
            let _ = r.push(t0.as_slice());
            let i = r.push(x.as_slice());
            let it = r.index(i);
            vassert!(it.len() == x.len() && it.iter().zip(x.iter()).all(|(a, b)| a == b), "VF:values.tuple.read_differs");
            vassert!(it.into_owned() == x, "VF:values.tuple.into_owned_differs");
            let mut t = t0.clone();
            it.clone_onto(&mut t);
            vassert!(t == x, "VF:values.tuple.clone_onto_differs");
        }
    }
}

// ---------------------------------------------------------------------------------------------------- heap accounting of composite tuple fields and of plain vectors
// A tuple field that owns several allocations (a slice region: offsets + elements; a result region: two sides; a nested
// tuple) contributes all of them; a `Vec<T>` region accounts `size_of::<T>()` bytes per element also when the element is
// larger than its alignment.
// args: kind (0..4), n (items 0..3), w (payload selector)
fn pre_hc(v: &[u64]) -> bool {
    v[0] < 7 && v[1] < 4 && v[2] < 3
}
fn doms_hc() -> Vec<Vec<u64>> {
    vec![range(7), range(4), range(3)]
}
fn run_hc(v: &[u64]) {
    use flatcontainer::impls::tuple::TupleABRegion;
    use flatcontainer::ResultRegion;
    crate::section("VF:heap.composite");
    let sums = |p: Vec<(usize, usize)>| -> (usize, usize) { (p.iter().map(|x| x.0).sum(), p.iter().map(|x| x.1).sum()) };
    let words: [&str; 4] = ["seventeen bytes!!", "é𝄞", "", "a considerably longer string of forty-one"];
    let n = v[1] as usize;
    match v[0] {
        0 => {
            // (slice of strings, string): the tuple against its two fields kept separately
            let mut t = <TupleABRegion<SliceRegion<StringRegion>, StringRegion>>::default();
            let (mut a, mut b) = (<SliceRegion<StringRegion>>::default(), <StringRegion>::default());
            for k in 0..n {
                let row: Vec<&str> = (0..=k).map(|j| words[(j + v[2] as usize) % 4]).collect();
                let _ = t.push((row.as_slice(), words[k % 4]));
                let _ = a.push(row.as_slice());
                let _ = b.push(words[k % 4]);
                let (ta, fa, fb) = (sums(collect_heap(|cb| t.heap_size(cb))), sums(collect_heap(|cb| a.heap_size(cb))), sums(collect_heap(|cb| b.heap_size(cb))));
                vassert!(ta.0 == fa.0 + fb.0, "VF:heap.composite.tuple_used_differs_from_its_fields");
                vassert!(ta.1 >= ta.0 && ta.1 >= fa.0 + fb.0, "VF:heap.composite.tuple_capacity_below_used");
            }
        }
        1 => {
            // (result of string / bytes, byte)
            let mut t = <TupleABRegion<ResultRegion<StringRegion, OwnedRegion<u8>>, MirrorRegion<u8>>>::default();
            let mut a = <ResultRegion<StringRegion, OwnedRegion<u8>>>::default();
            for k in 0..n {
                let item: Result<&str, &[u8]> = if (k + v[2] as usize) % 2 == 0 { Ok(words[k % 4]) } else { Err(&[1, 2, 3, 4, 5][..k + 1]) };
                let _ = t.push((item, k as u8));
                let _ = a.push(item);
                let (ta, fa) = (sums(collect_heap(|cb| t.heap_size(cb))), sums(collect_heap(|cb| a.heap_size(cb))));
                vassert!(ta.0 == fa.0, "VF:heap.composite.tuple_used_differs_from_its_fields");
            }
        }
        2 => {
            // a tuple nested in a tuple
            let mut t = <TupleABRegion<TupleABRegion<StringRegion, OwnedRegion<u8>>, StringRegion>>::default();
            let mut payload = 0usize;
            for k in 0..n {
                let w = words[(k + v[2] as usize) % 4];
                let _ = t.push(((w, &[7u8, 7, 7][..k % 3 + 1]), w));
                payload += 2 * w.len() + k % 3 + 1;
                let ta = sums(collect_heap(|cb| t.heap_size(cb)));
                vassert!(ta.0 >= payload, "VF:heap.composite.used_below_payload");
            }
        }
        3 => {
            // plain vector region with elements larger than their alignment
            let mut r = <Vec<[u8; 32]>>::default();
            for k in 0..n {
                let _ = <Vec<[u8; 32]> as Push<[u8; 32]>>::push(&mut r, [k as u8; 32]);
                let h = sums(collect_heap(|cb| Region::heap_size(&r, cb)));
                vassert!(h.0 >= 32 * (k + 1) && h.1 >= h.0, "VF:heap.composite.vec_used_below_element_bytes");
            }
        }
        5 => {
            // a result region whose Ok side owns no heap at all (zero-sized region type) and whose Err side does
            let mut t = <ResultRegion<MirrorRegion<u8>, StringRegion>>::default();
            let mut payload = 0usize;
            for k in 0..n {
                let w = words[(k + v[2] as usize) % 4];
                let item: Result<u8, &str> = if k % 2 == 0 { Err(w) } else { Ok(k as u8) };
                if k % 2 == 0 {
                    payload += w.len();
                }
                let _ = t.push(item);
                let ta = sums(collect_heap(|cb| t.heap_size(cb)));
                vassert!(ta.0 >= payload, "VF:heap.composite.used_below_payload");
            }
        }
        6 => {
            // the index container of a FlatStack contributes what it really holds: never more used bytes than capacity,
            // also when dense indices are absorbed without any heap
            let mut fs = <FlatStack<ConsecutiveIndexPairs<StringRegion>, IndexOptimized>>::default();
            let mut fl = <FlatStack<MirrorRegion<usize>, IndexList<Vec<u32>, Vec<u64>>>>::default();
            fl.reserve(4);
            for k in 0..(n + 2) {
                fs.copy(words[(k + v[2] as usize) % 4]);
                fl.copy(k * 3);
                vassert!(collect_heap(|cb| fs.heap_size(cb)).iter().all(|p| p.0 <= p.1), "VF:heap.composite.flatstack_used_exceeds_capacity");
                vassert!(collect_heap(|cb| fl.heap_size(cb)).iter().all(|p| p.0 <= p.1), "VF:heap.composite.flatstack_used_exceeds_capacity");
            }
        }
        _ => {
            let mut r = <Vec<(u32, u64)>>::default();
            for k in 0..n {
                let _ = <Vec<(u32, u64)> as Push<(u32, u64)>>::push(&mut r, (k as u32, v[2]));
                let h = sums(collect_heap(|cb| Region::heap_size(&r, cb)));
                vassert!(h.0 >= std::mem::size_of::<(u32, u64)>() * (k + 1) && h.1 >= h.0, "VF:heap.composite.vec_used_below_element_bytes");
            }
        }
    }
}

// ---------------------------------------------------------------------------------------------------- reference forms of fan-out regions over stateful children
// `&Result<T, E>`, `&Option<T>` and `&(A, B)` against the owned forms on a twin: same index, same stored bytes after every
// step, same reads — with children that store data and hand out position-dependent indices on BOTH sides.
// args: kind (0 result, 1 option, 2 tuple), k0 k1 k2 (pool items), mask (which steps use the reference form)
fn pre_rf(v: &[u64]) -> bool {
    v[0] < 3 && all_le(v, 1, 4, 3) && v[4] < 8
}
fn doms_rf() -> Vec<Vec<u64>> {
    vec![range(3), range(4), range(4), range(4), range(8)]
}
fn run_rf(v: &[u64]) {
    use flatcontainer::impls::tuple::TupleABRegion;
    use flatcontainer::{OptionRegion, ResultRegion};
    let used = |p: Vec<(usize, usize)>| -> usize { p.iter().map(|x| x.0).sum() };
    let by_ref = |step: usize| (v[4] >> step) & 1 == 1;
    match v[0] {
        0 => {
            type R = ResultRegion<StringRegion, StringRegion>;
            let pool: [Result<String, String>; 4] = [Ok("ab".into()), Err("xyz".into()), Err(String::new()), Ok(String::new())];
            let (mut r, mut t) = (R::default(), R::default());
            let mut issued = Vec::new();
            for step in 0..3 {
                let x = &pool[v[1 + step] as usize];
                let i = if by_ref(step) { r.push(x) } else { r.push(x.as_ref().map(|s| s.as_str()).map_err(|s| s.as_str())) };
                let j = t.push(x.as_ref().map(|s| s.as_str()).map_err(|s| s.as_str()));
                vassert!(i == j, "VF:ref_forms.index_differs");
                vassert!(used(collect_heap(|cb| r.heap_size(cb))) == used(collect_heap(|cb| t.heap_size(cb))), "VF:ref_forms.stored_bytes_differ");
                issued.push((i, x.clone()));
                for (i, w) in &issued {
                    let got: Result<String, String> = r.index(*i).map(|s| s.to_string()).map_err(|s| s.to_string());
                    vassert!(&got == w, "VF:ref_forms.read_differs");
                }
            }
        }
        1 => {
            type R = OptionRegion<StringRegion>;
            let pool: [Option<String>; 4] = [Some("ab".into()), None, Some(String::new()), Some("hello".into())];
            let (mut r, mut t) = (R::default(), R::default());
            let mut issued = Vec::new();
            for step in 0..3 {
                let x = &pool[v[1 + step] as usize];
                let i = if by_ref(step) { r.push(x) } else { r.push(x.as_deref()) };
                let j = t.push(x.as_deref());
                vassert!(i == j, "VF:ref_forms.index_differs");
                vassert!(used(collect_heap(|cb| r.heap_size(cb))) == used(collect_heap(|cb| t.heap_size(cb))), "VF:ref_forms.stored_bytes_differ");
                issued.push((i, x.clone()));
                for (i, w) in &issued {
                    vassert!(r.index(*i).map(|s| s.to_string()) == *w, "VF:ref_forms.read_differs");
                }
            }
        }
        _ => {
            type R = TupleABRegion<StringRegion, OwnedRegion<u8>>;
            let pool: [(String, Vec<u8>); 4] = [("ab".into(), vec![1]), (String::new(), vec![]), ("xyz".into(), vec![2, 3]), ("q".into(), vec![4, 5, 6])];
            let (mut r, mut t) = (R::default(), R::default());
            let mut issued = Vec::new();
            for step in 0..3 {
                let x = &pool[v[1 + step] as usize];
                let i = if by_ref(step) { r.push(x) } else { r.push((x.0.as_str(), x.1.as_slice())) };
                let j = t.push((x.0.as_str(), x.1.as_slice()));
                vassert!(i == j, "VF:ref_forms.index_differs");
                vassert!(used(collect_heap(|cb| r.heap_size(cb))) == used(collect_heap(|cb| t.heap_size(cb))), "VF:ref_forms.stored_bytes_differ");
                issued.push((i, x.clone()));
                for (i, w) in &issued {
                    let got = r.index(*i);
                    vassert!(got.0 == w.0 && got.1 == w.1.as_slice(), "VF:ref_forms.read_differs");
                }
            }
        }
    }
}

// ---------------------------------------------------------------------------------------------------- long random index sequences (thorough tier)
// args: kind, then 14 operations: value k < 12 -> push ALPHA[k]; 12 -> clear; 13 -> extend with the next two values' worth
fn pre_ixl(v: &[u64]) -> bool {
    v[0] < 3 && v[1..].iter().all(|x| *x < 14)
}
fn doms_ixl() -> Vec<Vec<u64>> {
    let mut d = vec![range(3)];
    for _ in 0..14 {
        d.push(range(14));
    }
    d
}
fn ixl_body<C: IndexContainer<usize> + Clone>(v: &[u64]) {
    let mut c = C::default();
    let mut model: Vec<usize> = Vec::new();
    let ops = &v[1..];
    let mut i = 0;
    while i < ops.len() {
        match ops[i] {
            12 => {
                c.clear();
                model.clear();
            }
            13 => {
                let batch: Vec<usize> = ops[i + 1..].iter().take(2).filter(|k| **k < 12).map(|k| ALPHA[*k as usize] as usize).collect();
                c.extend(batch.as_slice().iter().copied());
                Extend::extend(&mut model, batch);
                i += 2;
            }
            k => {
                c.push(ALPHA[k as usize] as usize);
                model.push(ALPHA[k as usize] as usize);
            }
        }
        i += 1;
        vassert!(c.len() == model.len() && c.is_empty() == model.is_empty(), "VF:index.len");
        for (j, w) in model.as_slice().iter().enumerate() {
            vassert!(c.index(j) == *w, "VF:index.earlier_entry_changed");
        }
        vassert!(c.iter().eq(model.as_slice().iter().copied()), "VF:index.iter");
    }
    let used: usize = collect_heap(|cb| c.heap_size(cb)).iter().map(|p| p.0).sum();
    let _ = used;
}
fn run_ixl(v: &[u64]) {
    match v[0] {
        0 => ixl_body::<IndexOptimized>(v),
        1 => ixl_body::<IndexList<Vec<u32>, Vec<u64>>>(v),
        _ => ixl_body::<Vec<usize>>(v),
    }
}

pub fn harnesses_long() -> Vec<H> {
    vec![H { name: "index_long_full", props: &["C05", "C02", "C03", "C08"], nargs: 15, pre: pre_ixl, doms: doms_ixl, run: run_ixl, panic_ok: false,
        bound: "IndexOptimized, IndexList, Vec<usize>: seeded random histories of 14 operations (push over the 12-value transition alphabet, clear, extend) against a Vec model; index/len/iter after every operation; sampled, not exhaustive (thorough tier)", kani: false }]
}
