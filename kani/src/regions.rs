//! Bounded stand-ins for region bodies outside the Verus dialect (closures over `&mut`, iterator adapters,
//! macro-generated tuples): round trip (C01), append-only (C02), dense indices (C12), collapse (C11),
//! interchangeable forms (C20), UTF-8 (C04).
use crate::util::*;
use crate::H;
use flatcontainer::impls::deduplicate::{CollapseSequence, ConsecutiveIndexPairs};
use flatcontainer::impls::index::IndexOptimized;
use flatcontainer::impls::tuple::TupleABRegion;
use flatcontainer::{ColumnsRegion, IntoOwned, MirrorRegion, OptionRegion, OwnedRegion, Push, PushIter, Region, ReserveItems, ResultRegion, SliceRegion, StringRegion};

type SR = SliceRegion<MirrorRegion<u8>>;

fn bytes3(v: &[u64], at: usize, n: u64) -> Vec<u8> {
    v[at..at + 3].iter().take(n as usize).map(|x| *x as u8).collect()
}

/// All accessors of a slice read item describe exactly `x` (C01: length, emptiness, positional access, iteration,
/// owned conversion).
pub fn read_is<'a, O>(item: flatcontainer::impls::slice::ReadSlice<'a, MirrorRegion<u8>, O>, x: &[u8])
where
    O: flatcontainer::impls::index::IndexContainer<u8>,
{
    vassert!(item.len() == x.len(), "VF:slice.read.len");
    vassert!(item.is_empty() == x.is_empty(), "VF:slice.read.is_empty");
    for i in 0..x.len() {
        vassert!(item.get(i) == x[i], "VF:slice.read.get");
    }
    vassert!(item.iter().eq(x.iter().copied()), "VF:slice.read.iter");
    vassert!(item.into_owned() == x, "VF:slice.read.into_owned");
}

fn arr<const N: usize>(x: &[u8]) -> [u8; N] {
    let mut a = [0u8; N];
    a.copy_from_slice(x);
    a
}
fn push_form(r: &mut SR, x: &[u8], form: u64) -> (usize, usize) {
    match form {
        0 => r.push(x),
        1 => r.push(x.to_vec()),
        2 => r.push(&x.to_vec()),
        3 => r.push(&&x.to_vec()),
        // array forms: [T; N], &[T; N], &&[T; N]
        f => match (x.len(), f) {
            (0, 4) => r.push(arr::<0>(x)),
            (1, 4) => r.push(arr::<1>(x)),
            (2, 4) => r.push(arr::<2>(x)),
            (_, 4) => r.push(arr::<3>(x)),
            (0, 5) => r.push(&arr::<0>(x)),
            (1, 5) => r.push(&arr::<1>(x)),
            (2, 5) => r.push(&arr::<2>(x)),
            (_, 5) => r.push(&arr::<3>(x)),
            (0, _) => r.push(&&arr::<0>(x)),
            (1, _) => r.push(&&arr::<1>(x)),
            (2, _) => r.push(&&arr::<2>(x)),
            (_, _) => r.push(&&arr::<3>(x)),
        },
    }
}

// ------------------------------------------------------------------------------------------------ slice_roundtrip
// args: n0 n1 a0 a1 a2 b0 b1 b2 form reserve
fn pre_slice_rt(v: &[u64]) -> bool {
    v[0] <= 3 && v[1] <= 3 && all_le(v, 2, 8, 255) && v[8] < 7 && v[9] < 2
}
fn doms_slice_rt() -> Vec<Vec<u64>> {
    vec![range(4), range(4), bytes(), vec![7], vec![9], bytes(), vec![7], vec![1], range(7), range(2)]
}
fn run_slice_rt(v: &[u64]) {
    let x = bytes3(v, 2, v[0]);
    let y = bytes3(v, 5, v[1]);
    crate::section("VF:slice.read");
    let mut r = SR::default();
    let mut twin = SR::default(); // canonical form only, never reserves
    let i0 = push_form(&mut r, &x, v[8]);
    let t0 = twin.push(x.as_slice());
    vassert!(i0 == t0, "VF:slice.forms.index0");
    read_is(r.index(i0), &x);
    if v[9] == 1 {
        crate::section("VF:slice.reserve");
        r.reserve_items(std::iter::once(y.as_slice()));
        r.reserve_regions(std::iter::once(&twin));
        read_is(r.index(i0), &x);
    }
    crate::section("VF:slice.read");
    let i1 = push_form(&mut r, &y, (v[8] + 1) % 7);
    let t1 = twin.push(y.as_slice());
    vassert!(i1 == t1, "VF:slice.forms.index1");
    read_is(r.index(i0), &x);
    read_is(r.index(i1), &y);
    vassert!(i0 == (0, x.len()) && i1 == (x.len(), x.len() + y.len()), "VF:slice.index.dense");
    let hr = collect_heap(|cb| r.heap_size(cb));
    let ht = collect_heap(|cb| twin.heap_size(cb));
    vassert!(hr.len() == ht.len() && hr.iter().zip(&ht).all(|(a, b)| a.0 == b.0), "VF:slice.forms.used_bytes");
    vcover!(x.len() == 3 && y.len() == 0, "long then empty reachable");
}

// ------------------------------------------------------------------------------------------------ slice_nested
// args: k (number of inner vectors 0..2), n0 n1 (inner lengths 0..2), a b c d (bytes)
fn pre_nested(v: &[u64]) -> bool {
    v[0] <= 2 && v[1] <= 2 && v[2] <= 2 && all_le(v, 3, 7, 255)
}
fn doms_nested() -> Vec<Vec<u64>> {
    vec![range(3), range(3), range(3), bytes(), vec![5], bytes(), vec![6]]
}
fn run_nested(v: &[u64]) {
    let inner0: Vec<u8> = v[3..5].iter().take(v[1] as usize).map(|x| *x as u8).collect();
    let inner1: Vec<u8> = v[5..7].iter().take(v[2] as usize).map(|x| *x as u8).collect();
    let outer: Vec<Vec<u8>> = [inner0, inner1].into_iter().take(v[0] as usize).collect();
    let mut r = <SliceRegion<SliceRegion<MirrorRegion<u8>>>>::default();
    let first = r.push(vec![vec![42u8]]);
    let idx = r.push(&outer);
    let item = r.index(idx);
    vassert!(item.len() == outer.len(), "VF:nested.len");
    for (i, want) in outer.iter().enumerate() {
        read_is(item.get(i), want);
    }
    vassert!(item.into_owned() == outer, "VF:nested.into_owned");
    let f = r.index(first);
    vassert!(f.len() == 1 && f.get(0).len() == 1 && f.get(0).get(0) == 42, "VF:nested.earlier_item_unchanged");
}

// ------------------------------------------------------------------------------------------------ strings in wrappers (C01, C02, C04)
// args: s0 s1 s2 (catalogue indices), which composition (0..3)
fn pre_str(v: &[u64]) -> bool {
    v[0] < 6 && v[1] < 6 && v[2] < 6 && v[3] < 4
}
fn doms_str() -> Vec<Vec<u64>> {
    vec![range(6), range(6), range(6), range(4)]
}
fn check_str(got: &str, want: &str) {
    vassert!(std::str::from_utf8(got.as_bytes()).is_ok(), "VF:string.valid_utf8");
    vassert!(got.as_bytes() == want.as_bytes(), "VF:string.bytes_equal");
}
fn run_str(v: &[u64]) {
    let s = [string(v[0]), string(v[1]), string(v[2])];
    match v[3] {
        0 => {
            let mut r = <ConsecutiveIndexPairs<StringRegion>>::default();
            let idx: Vec<usize> = s.iter().map(|x| r.push(*x)).collect();
            vassert!(idx == vec![0, 1, 2], "VF:string.cip.dense_indices");
            for (i, w) in idx.iter().zip(&s) {
                check_str(r.index(*i), w);
            }
            // a scratch region with an earlier life (same bytes in total, other item boundaries) refilled by clone_from
            let mut d = <ConsecutiveIndexPairs<StringRegion>>::default();
            for x in s.iter().rev() {
                let _ = d.push(*x);
            }
            d.clone_from(&r);
            for (i, w) in idx.iter().zip(&s) {
                check_str(d.index(*i), w);
            }
        }
        1 => {
            let mut r = <CollapseSequence<ConsecutiveIndexPairs<StringRegion>>>::default();
            let mut idx = Vec::new();
            for x in &s {
                idx.push(r.push(*x));
                for (i, w) in idx.iter().zip(&s) {
                    check_str(r.index(*i), w);
                }
            }
        }
        2 => {
            let mut r = <SliceRegion<StringRegion>>::default();
            let i0 = r.push(&s[..2]);
            let i1 = r.push(vec![s[2].to_string()]);
            let a = r.index(i0);
            vassert!(a.len() == 2, "VF:string.slice.len");
            check_str(a.get(0), s[0]);
            check_str(a.get(1), s[1]);
            let b = r.index(i1);
            vassert!(b.len() == 1, "VF:string.slice.len");
            check_str(b.get(0), s[2]);
            vassert!(a.into_owned() == vec![s[0].to_string(), s[1].to_string()], "VF:string.slice.into_owned");
        }
        _ => {
            let mut r = <ColumnsRegion<StringRegion>>::default();
            let i0 = r.push(&s[..1]);
            let i1 = r.push(s.to_vec());
            let c = r.clone();
            let m = {
                let mut m = <ColumnsRegion<StringRegion>>::merge_regions([&r, &c].into_iter());
                let k = m.push(&s[1..]);
                vassert!(k == 0, "VF:string.columns.merge_dense");
                let row = m.index(k);
                vassert!(row.len() == 2, "VF:string.columns.merge_len");
                check_str(row.get(0), s[1]);
                check_str(row.get(1), s[2]);
                m
            };
            let _ = m;
            for reg in [&r, &c] {
                let a = reg.index(i0);
                vassert!(a.len() == 1, "VF:string.columns.len");
                check_str(a.get(0), s[0]);
                let b = reg.index(i1);
                vassert!(b.len() == 3, "VF:string.columns.len");
                for j in 0..3 {
                    check_str(b.get(j), s[j]);
                }
            }
            // pre-sizing in mid-life (narrower sources, no sources) followed by another wide row: the earlier rows
            // still read their own strings
            let mut w = c;
            let narrow = {
                let mut n = <ColumnsRegion<StringRegion>>::default();
                let _ = n.push(&s[..1]);
                n
            };
            w.reserve_regions(std::iter::once(&narrow));
            w.reserve_regions(std::iter::empty());
            let rev = [s[2], s[1], s[0]];
            let i2 = w.push(rev.to_vec());
            for (i, want) in [(i0, &s[..1]), (i1, &s[..]), (i2, &rev[..])] {
                let row = w.index(i);
                vassert!(row.len() == want.len(), "VF:string.columns.len");
                for j in 0..want.len() {
                    check_str(row.get(j), want[j]);
                }
            }
            // C20: a row replayed as a read item of a wider region stores exactly what the slice form stores
            let mut wide = <ColumnsRegion<StringRegion>>::default();
            let _ = wide.push(s.to_vec());
            let k = wide.push(&s[..1]);
            let (mut a, mut b) = (<ColumnsRegion<StringRegion>>::default(), <ColumnsRegion<StringRegion>>::default());
            let (ia, ib) = (a.push(wide.index(k)), b.push(&s[..1]));
            let used = |r: &ColumnsRegion<StringRegion>| -> usize { collect_heap(|cb| r.heap_size(cb)).iter().map(|p| p.0).sum() };
            vassert!(ia == ib, "VF:string.columns.forms.index");
            vassert!(used(&a) == used(&b), "VF:string.columns.forms.used_bytes");
        }
    }
}

// ------------------------------------------------------------------------------------------------ option / result / tuple
// args: kind (0 option, 1 result, 2 tuple), v0 v1 (variant selectors), s0 s1 (strings), b0 b1 (numbers), form (0 owned, 1 ref)
fn pre_fan(v: &[u64]) -> bool {
    v[0] < 3 && v[1] < 2 && v[2] < 2 && v[3] < 6 && v[4] < 6 && v[5] <= 255 && v[6] <= 255 && v[7] < 2
}
fn doms_fan() -> Vec<Vec<u64>> {
    vec![range(3), range(2), range(2), range(6), vec![1, 2], bytes(), vec![3], range(2)]
}
fn run_fan(v: &[u64]) {
    let (s0, s1) = (string(v[3]), string(v[4]));
    let (b0, b1) = (v[5] as u8, v[6] as u8);
    match v[0] {
        0 => {
            let x0: Option<&str> = if v[1] == 0 { Some(s0) } else { None };
            let x1: Option<&str> = if v[2] == 0 { Some(s1) } else { None };
            let mut r = <OptionRegion<StringRegion>>::default();
            let mut t = <OptionRegion<StringRegion>>::default();
            let i0 = if v[7] == 0 { r.push(x0) } else { r.push(&x0) };
            let i1 = if v[7] == 0 { r.push(&x1) } else { r.push(x1) };
            vassert!(i0 == t.push(x0) && i1 == t.push(x1), "VF:option.forms.index");
            vassert!(r.index(i0) == x0 && r.index(i1) == x1, "VF:option.roundtrip");
            vassert!(r.index(i0).into_owned() == x0.map(|s| s.to_string()), "VF:option.into_owned");
        }
        1 => {
            let x0: Result<&str, u8> = if v[1] == 0 { Ok(s0) } else { Err(b0) };
            let x1: Result<&str, u8> = if v[2] == 0 { Ok(s1) } else { Err(b1) };
            let mut r = <ResultRegion<StringRegion, MirrorRegion<u8>>>::default();
            let mut t = <ResultRegion<StringRegion, MirrorRegion<u8>>>::default();
            let i0 = if v[7] == 0 { r.push(x0) } else { r.push(&x0) };
            let i1 = if v[7] == 0 { r.push(&x1) } else { r.push(x1) };
            vassert!(i0 == t.push(x0) && i1 == t.push(x1), "VF:result.forms.index");
            vassert!(r.index(i0) == x0 && r.index(i1) == x1, "VF:result.roundtrip");
            vassert!(r.index(i0).into_owned() == x0.map(|s| s.to_string()), "VF:result.into_owned");
        }
        _ => {
            let x0 = (s0, b0 as u64);
            let x1 = (s1, u64::MAX - b1 as u64);
            let mut r = <TupleABRegion<StringRegion, MirrorRegion<u64>>>::default();
            let mut t = <TupleABRegion<StringRegion, MirrorRegion<u64>>>::default();
            let i0 = if v[7] == 0 { r.push(x0) } else { r.push(&x0) };
            let i1 = if v[7] == 0 { r.push(&x1) } else { r.push(x1) };
            vassert!(i0 == t.push(x0) && i1 == t.push(x1), "VF:tuple.forms.index");
            vassert!(r.index(i0) == x0 && r.index(i1) == x1, "VF:tuple.roundtrip");
            vassert!(r.index(i1).into_owned() == (s1.to_string(), x1.1), "VF:tuple.into_owned");
        }
    }
}

// ------------------------------------------------------------------------------------------------ columns: ragged rows (C12, C01, C02, C13, C20)
// args: w0 w1 w2 (row widths 0..3), form (0..5), offs (0: IndexOptimized, 1: Vec<usize>), probe (position for the out-of-bounds probe)
fn pre_cols(v: &[u64]) -> bool {
    v[0] <= 3 && v[1] <= 3 && v[2] <= 3 && v[3] < 8 && v[4] < 2
}
fn doms_cols() -> Vec<Vec<u64>> {
    vec![range(4), range(4), range(4), range(8), range(2), vec![0, 1, 2, 3, 4, u64::MAX]]
}
fn row(k: usize, w: u64) -> Vec<u8> {
    (0..w as usize).map(|c| (10 * (k + 1) + c) as u8).collect()
}
fn cols_body<O: flatcontainer::impls::index::IndexContainer<usize>>(v: &[u64]) {
    crate::section("VF:columns.row");
    let rows = [row(0, v[0]), row(1, v[1]), row(2, v[2])];
    let mut r = <ColumnsRegion<MirrorRegion<u8>, O>>::default();
    // C20: a twin fed the canonical form (`&[T]`) only
    let mut t = <ColumnsRegion<MirrorRegion<u8>, O>>::default();
    let mut idx = Vec::new();
    for (k, x) in rows.iter().enumerate() {
        crate::section("VF:columns.row");
        let i = match (v[3] + k as u64) % 8 {
            0 => r.push(x.as_slice()),
            1 => r.push(x.clone()),
            2 => r.push(x),
            3 => r.push(PushIter(x.iter().copied())),
            5 => match x.len() {
                0 => r.push(arr::<0>(x)),
                1 => r.push(arr::<1>(x)),
                2 => r.push(arr::<2>(x)),
                _ => r.push(arr::<3>(x)),
            },
            6 => match x.len() {
                0 => r.push(&arr::<0>(x)),
                1 => r.push(&arr::<1>(x)),
                2 => r.push(&arr::<2>(x)),
                _ => r.push(&arr::<3>(x)),
            },
            7 => {
                // a wrapped iterator whose size_hint is not exact (ExactSizeIterator by declaration only): the
                // iterator of a slice region's read item
                let mut other = <SliceRegion<MirrorRegion<u8>>>::default();
                let _ = other.push([9u8].as_slice());
                let j = other.push(x.as_slice());
                r.push(PushIter(other.index(j).iter()))
            }
            _ => {
                // a read item of another region of the same type
                let mut other = <ColumnsRegion<MirrorRegion<u8>, O>>::default();
                let j = other.push(x.as_slice());
                r.push(other.index(j))
            }
        };
        idx.push(i);
        // C20: whatever form the row came in, the region is indistinguishable from the twin
        crate::section("VF:columns.forms");
        let dump = |c: &ColumnsRegion<MirrorRegion<u8>, O>, idx: &[usize]| -> Option<Vec<Vec<u8>>> {
            std::panic::catch_unwind(std::panic::AssertUnwindSafe(|| {
                idx.iter().map(|i| { let it = c.index(*i); let mut o: Vec<u8> = it.iter().collect(); o.extend((0..it.len()).map(|k| it.get(k))); o }).collect()
            })).ok()
        };
        let it = t.push(x.as_slice());
        if let Some(reference) = dump(&t, &idx) {
            vassert!(i == it, "VF:columns.forms.index");
            vassert!(dump(&r, &idx) == Some(reference), "VF:columns.forms.reads");
        }
        crate::section("VF:columns.row");
        // every row issued so far reads exactly its own cells
        for (i, want) in idx.iter().zip(rows.iter()) {
            let got = r.index(*i);
            vassert!(got.len() == want.len(), "VF:columns.row.len");
            vassert!(got.is_empty() == want.is_empty(), "VF:columns.row.is_empty");
            vassert!(got.iter().eq(want.iter().copied()), "VF:columns.row.iter");
            vassert!(got.iter().nth(want.len()).is_none() && got.iter().count() == want.len(), "VF:columns.row.iter_past_end");
            vassert!(got.iter().len() == want.len(), "VF:columns.row.iter_exact_size");
            for c in 0..want.len() {
                vassert!(got.get(c) == want[c], "VF:columns.row.get");
            }
            vassert!(got.into_owned() == *want, "VF:columns.row.into_owned");
        }
    }
    vassert!(idx == vec![0, 1, 2], "VF:columns.dense_indices");
    // fail-stop probe on the middle row
    crate::section("VF:columns.get");
    let probe = v[5] as usize;
    let got = r.index(idx[1]);
    if probe >= rows[1].len() {
        let _ = got.get(probe); // must panic
        vassert!(false, "VF:columns.get.returned_out_of_bounds");
    }
}
fn run_cols(v: &[u64]) {
    if v[4] == 0 {
        cols_body::<IndexOptimized>(v)
    } else {
        cols_body::<Vec<usize>>(v)
    }
}

// ------------------------------------------------------------------------------------------------ collapse (C11)
// args: s0 s1 s2 (strings from a 3-element domain so that repeats are frequent), boundary (0 none, 1 clear, 2 merge, 3 clone), depth (0 top, 1 over CIP, 2 in tuple, 3 in slice)
fn pre_collapse(v: &[u64]) -> bool {
    v[0] < 3 && v[1] < 3 && v[2] < 3 && v[3] < 6 && v[4] < 7
}
fn doms_collapse() -> Vec<Vec<u64>> {
    vec![range(3), range(3), range(3), range(6), vec![0, 1, 2, 3, 4, 5, 6]]
}
fn used<R: Region>(r: &R) -> usize {
    collect_heap(|cb| r.heap_size(cb)).iter().map(|p| p.0).sum()
}
fn collapse_seq<R>(v: &[u64])
where
    R: Region + Clone + for<'a> Push<&'a str>,
    for<'a> R::ReadItem<'a>: PartialEq<&'a str>,
    R::Index: PartialEq + std::fmt::Debug,
{
    let pool = ["ab", "€", ""];
    let s = [pool[v[0] as usize], pool[v[1] as usize], pool[v[2] as usize]];
    crate::section("VF:collapse.plain");
    let mut r = R::default();
    let i0 = r.push(s[0]);
    let u0 = used(&r);
    let i1 = r.push(s[1]);
    if s[0] == s[1] {
        vassert!(i1 == i0, "VF:collapse.equal_returns_previous_index");
        vassert!(used(&r) == u0, "VF:collapse.equal_stores_nothing");
    }
    vassert!(r.index(i0) == s[0] && r.index(i1) == s[1], "VF:collapse.reads");
    match v[3] {
        0 => {
            crate::section("VF:collapse.plain");
            let i2 = r.push(s[2]);
            if s[1] == s[2] {
                vassert!(i2 == i1, "VF:collapse.equal_returns_previous_index");
            }
            vassert!(r.index(i0) == s[0] && r.index(i1) == s[1] && r.index(i2) == s[2], "VF:collapse.reads");
        }
        1 => {
            crate::section("VF:collapse.after_clear_read");
            r.clear();
            let u_cleared = used(&r);
            let fresh_idx = R::default().push(s[2]);
            // C11: an item equal to one pushed before the clear must be stored again, not collapsed into the old one
            let i2 = r.push(s[1]);
            vassert!(r.index(i2) == s[1], "VF:collapse.after_clear_read");
            if !s[1].is_empty() {
                vassert!(used(&r) > u_cleared, "VF:collapse.collapsed_across_clear");
            }
            let i3 = r.push(s[1]);
            vassert!(i3 == i2, "VF:collapse.equal_returns_previous_index");
            // C08: and the region answers like a fresh one
            r.clear();
            let i4 = r.push(s[2]);
            vassert!(i4 == fresh_idx, "VF:collapse.after_clear_like_fresh");
            vassert!(r.index(i4) == s[2], "VF:collapse.after_clear_read");
        }
        2 => {
            crate::section("VF:collapse.after_merge_read");
            let mut m = R::merge_regions(std::iter::once(&r));
            let u_merged = used(&m);
            let fresh_idx = R::default().push(s[1]);
            // C11: the last item of a source region is not remembered by the merged region
            let i2 = m.push(s[1]);
            vassert!(m.index(i2) == s[1], "VF:collapse.after_merge_read");
            if !s[1].is_empty() {
                vassert!(used(&m) > u_merged, "VF:collapse.collapsed_across_merge");
            }
            vassert!(i2 == fresh_idx, "VF:collapse.after_merge_like_fresh");
        }
        5 => {
            // pre-sizing between two pushes is not a boundary: an equal item still collapses, a different one is stored
            crate::section("VF:collapse.reserve");
            let other = {
                let mut o = R::default();
                let _ = o.push(s[2]);
                o
            };
            r.reserve_regions(std::iter::once(&other));
            let u = used(&r);
            let i2 = r.push(s[1]);
            vassert!(i2 == i1 && used(&r) == u, "VF:collapse.reserve.equal_not_collapsed_after_reserve_regions");
            r.reserve_regions(std::iter::empty());
            let i3 = r.push(s[1]);
            vassert!(i3 == i1, "VF:collapse.reserve.equal_not_collapsed_after_reserve_regions");
            let i4 = r.push(s[2]);
            if s[2] != s[1] {
                vassert!(i4 != i3, "VF:collapse.reserve.different_item_collapsed");
            }
            vassert!(r.index(i0) == s[0] && r.index(i3) == s[1] && r.index(i4) == s[2], "VF:collapse.reserve.reads");
        }
        4 => {
            // clone_from into a destination with its own, different history must behave exactly like clone
            crate::section("VF:collapse.clone_from");
            let mut d = R::default();
            let _ = d.push(s[2]);
            let _ = d.push(s[0]);
            d.clone_from(&r);
            let mut c = r.clone();
            for probe in [s[1], s[2], s[0]] {
                let (id, ic) = (d.push(probe), c.push(probe));
                vassert!(id == ic, "VF:collapse.clone_from_differs_from_clone");
                vassert!(d.index(id) == probe && c.index(ic) == probe, "VF:collapse.clone_from_read");
            }
            vassert!(d.index(i0) == s[0] && d.index(i1) == s[1], "VF:collapse.clone_from_old_reads");
            vassert!(used(&d) == used(&c), "VF:collapse.clone_from_used_bytes_differ_from_clone");
        }
        _ => {
            crate::section("VF:collapse.clone");
            let mut c = r.clone();
            let ic = c.push(s[2]);
            let ir = r.push(s[2]);
            vassert!(ic == ir, "VF:collapse.clone_answers_identically");
            vassert!(c.index(ic) == s[2] && r.index(ir) == s[2], "VF:collapse.clone_reads");
            vassert!(c.index(i0) == s[0] && c.index(i1) == s[1], "VF:collapse.clone_old_reads");
        }
    }
}
fn run_collapse(v: &[u64]) {
    match v[4] {
        0 => collapse_seq::<CollapseSequence<StringRegion>>(v),
        1 => collapse_seq::<CollapseSequence<ConsecutiveIndexPairs<StringRegion>>>(v),
        2 => {
            // inside a tuple: the collapsing column collapses, the other does not
            let pool = ["ab", "€", ""];
            let mut r = <TupleABRegion<CollapseSequence<StringRegion>, OwnedRegion<u8>>>::default();
            let a = r.push((pool[v[0] as usize], [1u8, 2].as_slice()));
            let b = r.push((pool[v[1] as usize], [3u8].as_slice()));
            if v[0] == v[1] {
                vassert!(a.0 == b.0, "VF:collapse.tuple.equal_returns_previous_index");
            }
            vassert!(a.1 != b.1, "VF:collapse.tuple.other_field_stored");
            vassert!(r.index(a) == (pool[v[0] as usize], [1u8, 2].as_slice()) && r.index(b) == (pool[v[1] as usize], [3u8].as_slice()), "VF:collapse.tuple.reads");
        }
        4 => {
            // over a Huffman container in its encoded generation, fed decoded (owned-borrowed) read items: the stored
            // previous item is encoded, the pushed one is not; prefixes and extensions are not equal
            use flatcontainer::impls::huffman_container::HuffmanContainer;
            use flatcontainer::IntoOwned;
            crate::section("VF:collapse.huffman");
            type HR = CollapseSequence<HuffmanContainer<u8>>;
            let pool: [Vec<u8>; 3] = [vec![1, 2, 3, 1, 2], vec![1, 2, 3], vec![]];
            let mut raw = HR::default();
            for x in pool.iter() {
                let _ = raw.push(<<HR as Region>::ReadItem<'_> as IntoOwned>::borrow_as(x));
            }
            let mut r = HR::merge_regions(std::iter::once(&raw));
            let items = [&pool[v[0] as usize], &pool[v[1] as usize], &pool[v[2] as usize]];
            let mut idx = Vec::new();
            for (k, x) in items.iter().enumerate() {
                let i = r.push(<<HR as Region>::ReadItem<'_> as IntoOwned>::borrow_as(*x));
                if k > 0 && items[k - 1] == *x {
                    vassert!(i == idx[k - 1], "VF:collapse.huffman.equal_returns_previous_index");
                }
                idx.push(i);
                for (j, w) in idx.iter().zip(items.iter()) {
                    vassert!(r.index(*j).into_owned() == **w, "VF:collapse.huffman.reads");
                }
            }
        }
        5 => {
            // the benchmark composition: the collapsing region's repeated indices go through IndexOptimized::extend
            crate::section("VF:collapse.slice_opt");
            let pool = ["ab", "€", ""];
            let mut r = <SliceRegion<CollapseSequence<ConsecutiveIndexPairs<StringRegion>>, flatcontainer::impls::index::IndexOptimized>>::default();
            let x = [pool[v[0] as usize], pool[v[1] as usize], pool[v[2] as usize]];
            let y = [pool[v[1] as usize], pool[v[1] as usize], pool[v[2] as usize], pool[v[0] as usize]];
            let mut items: Vec<((usize, usize), Vec<&str>)> = Vec::new();
            for round in 0..2 {
                for it in [&x[..], &y[..], &x[..1]] {
                    let i = r.push(it.to_vec());
                    items.push((i, it.to_vec()));
                    for (j, w) in &items {
                        let got = r.index(*j);
                        vassert!(got.len() == w.len() && got.iter().zip(w.iter()).all(|(a, b)| a == *b), "VF:collapse.slice_opt.reads");
                    }
                }
                if v[3] == 1 && round == 0 {
                    r.clear();
                    items.clear();
                }
            }
        }
        _ => {
            // inside a slice region: elements of one item and across items
            let pool = ["ab", "€", ""];
            let mut r = <SliceRegion<CollapseSequence<StringRegion>>>::default();
            let x = [pool[v[0] as usize], pool[v[1] as usize]];
            let y = [pool[v[2] as usize]];
            let i0 = r.push(x.to_vec());
            let i1 = r.push(y.to_vec());
            let a = r.index(i0);
            let b = r.index(i1);
            vassert!(a.len() == 2 && b.len() == 1, "VF:collapse.slice.len");
            vassert!(a.get(0) == x[0] && a.get(1) == x[1] && b.get(0) == y[0], "VF:collapse.slice.reads");
        }
    }
}

// ------------------------------------------------------------------------------------------------ slice over a compressing index container
// `SliceRegion` is the one caller of `IndexContainer::extend`; with `IndexOptimized` the inner indices of one item can
// enter and leave the stride inside a single push.
// args: a0..a4 (alphabet positions), n0 (length of the first item 0..5), form (0 slice, 1 Vec, 2 read item of another region)
const IDX_ALPHA: [usize; 10] = [0, 1, 2, 3, 4, 5, 6, 7, u32::MAX as usize, u32::MAX as usize + 1];
fn pre_sio(v: &[u64]) -> bool {
    all_le(v, 0, 5, 9) && v[5] <= 5 && v[6] < 3
}
fn doms_sio() -> Vec<Vec<u64>> {
    vec![range(10), range(10), range(10), vec![0, 2, 5, 6, 9], vec![0, 1, 6], range(6), range(3)]
}
fn run_sio(v: &[u64]) {
    type R = SliceRegion<MirrorRegion<usize>, IndexOptimized>;
    let all: Vec<usize> = v[0..5].iter().map(|k| IDX_ALPHA[*k as usize]).collect();
    let (x, y) = all.split_at(v[5] as usize);
    let mut r = R::default();
    let same = |r: &R, i: (usize, usize), want: &[usize]| {
        let it = r.index(i);
        let n = it.len();
        vassert!(n == want.len(), "VF:slice_opt.len");
        // (positions the read item itself claims to have: `get` must return the element pushed at that position)
        for (k, w) in want.iter().enumerate().take(n) {
            vassert!(it.get(k) == *w, "VF:slice_opt.get");
        }
        vassert!(it.iter().count() == n && it.iter().enumerate().all(|(k, e)| e == it.get(k)) && it.is_empty() == (n == 0), "VF:slice_opt.accessors_disagree");
        vassert!(it.iter().eq(want.iter().copied()), "VF:slice_opt.iter");
        vassert!(it.into_owned() == want, "VF:slice_opt.into_owned");
    };
    let push = |r: &mut R, w: &[usize]| match v[6] {
        0 => r.push(w),
        1 => r.push(w.to_vec()),
        _ => {
            let mut o = R::default();
            let j = o.push(w);
            r.push(o.index(j))
        }
    };
    let i0 = push(&mut r, x);
    same(&r, i0, x);
    let i1 = push(&mut r, y);
    same(&r, i0, x);
    same(&r, i1, y);
    vassert!(i0 == (0, x.len()) && i1 == (x.len(), all.len()), "VF:slice_opt.index");
    // C20: the bulk forms (IndexContainer::extend) and the element-wise forms (read items) are interchangeable
    let mut twin = R::default();
    let feed = |t: &mut R, w: &[usize], form: u64| match form {
        0 => t.push(w),
        1 => t.push(w.to_vec()),
        _ => {
            let mut o = R::default();
            let j = o.push(w);
            t.push(o.index(j))
        }
    };
    let j0 = feed(&mut twin, x, (v[6] + 1) % 3);
    let j1 = feed(&mut twin, y, (v[6] + 2) % 3);
    vassert!((i0, i1) == (j0, j1), "VF:slice_opt.forms.index");
    let dump = |t: &R, i: (usize, usize)| -> Vec<usize> { t.index(i).iter().collect() };
    vassert!(dump(&r, i0) == dump(&twin, j0) && dump(&r, i1) == dump(&twin, j1), "VF:slice_opt.forms.reads");
    let heap = |t: &R| -> usize { collect_heap(|cb| t.heap_size(cb)).iter().map(|p| p.0).sum() };
    vassert!(heap(&r) == heap(&twin), "VF:slice_opt.forms.used_bytes");
}

// ------------------------------------------------------------------------------------------------ OwnedRegion: every input form against the canonical one
// args: n (0..3, or 4 = a 40-byte item longer than any capacity reached before), a0 a1 a2, form (0..8), prefill (0..2 items)
fn pre_of(v: &[u64]) -> bool {
    v[0] <= 4 && all_le(v, 1, 4, 255) && v[4] < 8 && v[5] < 3
}
fn doms_of() -> Vec<Vec<u64>> {
    vec![range(5), bytes(), vec![7], vec![9], range(8), range(3)]
}
fn run_of(v: &[u64]) {
    let x: Vec<u8> = if v[0] == 4 { (0..40u8).map(|i| i ^ v[1] as u8).collect() } else { bytes3(v, 1, v[0]) };
    let mut r = <OwnedRegion<u8>>::default();
    let mut t = <OwnedRegion<u8>>::default();
    let pre: [&[u8]; 2] = [&[1, 2], &[3]];
    let mut earlier = Vec::new();
    for p in pre.iter().take(v[5] as usize) {
        earlier.push((r.push(*p), *p));
        let _ = t.push(*p);
    }
    let xs = x.as_slice();
    let i = match v[4] {
        0 => match x.len() {
            0 => r.push(arr::<0>(xs)),
            1 => r.push(arr::<1>(xs)),
            2 => r.push(arr::<2>(xs)),
            3 => r.push(arr::<3>(xs)),
            _ => r.push(arr::<40>(xs)),
        },
        1 => r.push(PushIter(x.clone())),
        2 => r.push(x.clone()),
        3 => r.push(&x),
        4 => r.push(&xs),
        5 => match x.len() {
            0 => r.push(&arr::<0>(xs)),
            1 => r.push(&arr::<1>(xs)),
            2 => r.push(&arr::<2>(xs)),
            3 => r.push(&arr::<3>(xs)),
            _ => r.push(&arr::<40>(xs)),
        },
        6 => match x.len() {
            0 => r.push(&&arr::<0>(xs)),
            1 => r.push(&&arr::<1>(xs)),
            2 => r.push(&&arr::<2>(xs)),
            3 => r.push(&&arr::<3>(xs)),
            _ => r.push(&&arr::<40>(xs)),
        },
        _ => r.push(PushIter(x.iter().copied().collect::<Vec<u8>>().into_iter())),
    };
    let j = t.push(xs);
    vassert!(i == j, "VF:owned.forms.index");
    vassert!(r.index(i) == xs && t.index(j) == xs, "VF:owned.forms.read");
    for (e, want) in &earlier {
        vassert!(r.index(*e) == *want, "VF:owned.forms.earlier_read_changed");
    }
    let (hr, ht) = (collect_heap(|cb| r.heap_size(cb)), collect_heap(|cb| t.heap_size(cb)));
    vassert!(hr[0].0 == ht[0].0, "VF:owned.forms.used_bytes");
}

// ------------------------------------------------------------------------------------------------ StringRegion: every input form against `&str`
// args: s (catalogue index), form (0 String, 1 &String, 2 &&str, 3 &str), prefill (0..2)
fn pre_sf(v: &[u64]) -> bool {
    v[0] < 6 && v[1] < 4 && v[2] < 3
}
fn doms_sf() -> Vec<Vec<u64>> {
    vec![range(6), range(4), range(3)]
}
fn run_sf(v: &[u64]) {
    let s = string(v[0]);
    let mut r = <StringRegion>::default();
    let mut t = <StringRegion>::default();
    let mut earlier = Vec::new();
    for k in 0..v[2] {
        earlier.push((r.push(string(k + 2)), string(k + 2)));
        let _ = t.push(string(k + 2));
    }
    let owned = s.to_string();
    let i = match v[1] {
        0 => r.push(owned.clone()),
        1 => r.push(&owned),
        2 => r.push(&s),
        _ => r.push(s),
    };
    let j = t.push(s);
    vassert!(i == j, "VF:string.forms.index");
    check_str(r.index(i), s);
    for (e, want) in &earlier {
        check_str(r.index(*e), want);
    }
    let (hr, ht) = (collect_heap(|cb| r.heap_size(cb)), collect_heap(|cb| t.heap_size(cb)));
    vassert!(hr[0].0 == ht[0].0, "VF:string.forms.used_bytes");
}

pub fn harnesses() -> Vec<H> {
    vec![
        H { name: "slice_roundtrip", props: &["C01", "C02", "C20", "C10"], nargs: 10, pre: pre_slice_rt, doms: doms_slice_rt, run: run_slice_rt, panic_ok: false,
            bound: "SliceRegion<MirrorRegion<u8>>: two items of length 0..3, element bytes arbitrary (native: {0,1,255}), seven input forms (slice, Vec, &Vec, &&Vec, [T;N], &[T;N], &&[T;N]), optional reserve_items/reserve_regions in between; twin fed the canonical form", kani: false },
        H { name: "slice_index_optimized", props: &["C01", "C02", "C03", "C05", "C20", "C13"], nargs: 7, pre: pre_sio, doms: doms_sio, run: run_sio, panic_ok: false,
            bound: "SliceRegion<MirrorRegion<usize>, IndexOptimized>: five inner indices over a 10-value alphabet {0..7, u32::MAX, u32::MAX+1} split into two items at any point (IndexContainer::extend inside one push), three input forms; both items re-read after each push; indices, reads and used bytes compared with a twin fed the same items in the other forms", kani: false },
        H { name: "owned_forms", props: &["C20", "C01", "C02"], nargs: 6, pre: pre_of, doms: doms_of, run: run_of, panic_ok: false,
            bound: "OwnedRegion<u8>: all eight input forms ([T;N], PushIter x2, Vec, &Vec, &&[T], &[T;N], &&[T;N]) versus &[T] on twins; item length 0..3 or 40 (longer than any capacity reached before); region pre-filled with 0..2 items, which are re-read", kani: false },
        H { name: "string_forms", props: &["C20", "C04", "C01"], nargs: 3, pre: pre_sf, doms: doms_sf, run: run_sf, panic_ok: false,
            bound: "StringRegion: String, &String, &&str versus &str on twins for the 6-string catalogue (1-4 byte scalars, combining sequence, empty), region pre-filled with 0..2 strings", kani: false },
        H { name: "slice_nested", props: &["C01", "C02"], nargs: 7, pre: pre_nested, doms: doms_nested, run: run_nested, panic_ok: false,
            bound: "SliceRegion<SliceRegion<MirrorRegion<u8>>>: one earlier item plus an outer item of 0..2 inner vectors of length 0..2, bytes arbitrary", kani: false },
        H { name: "string_compositions", props: &["C01", "C02", "C04", "C12", "C20"], nargs: 4, pre: pre_str, doms: doms_str, run: run_str, panic_ok: false,
            bound: "three strings from a 6-string catalogue (1-4 byte scalars, combining sequence, empty) in ConsecutiveIndexPairs<StringRegion>, CollapseSequence<ConsecutiveIndexPairs<StringRegion>>, SliceRegion<StringRegion>, ColumnsRegion<StringRegion> (incl. clone and merge_regions)", kani: false },
        H { name: "fanout_roundtrip", props: &["C01", "C02", "C20", "C14"], nargs: 8, pre: pre_fan, doms: doms_fan, run: run_fan, panic_ok: false,
            bound: "OptionRegion<StringRegion>, ResultRegion<StringRegion, MirrorRegion<u8>>, TupleABRegion<StringRegion, MirrorRegion<u64>>: two pushes, each variant, owned and reference forms, twin fed owned forms", kani: false },
        H { name: "columns_ragged", props: &["C12", "C01", "C02", "C13", "C20", "C14"], nargs: 6, pre: pre_cols, doms: doms_cols, run: run_cols, panic_ok: true,
            bound: "ColumnsRegion<MirrorRegion<u8>> with IndexOptimized and Vec<usize> offsets: three rows of width 0..3 in any order, eight input forms (slice, Vec, &Vec, PushIter over an exact and over an inexact-size_hint iterator, read item of another region, [T;N], &[T;N]), compared with a twin fed slices, rotated over the rows, all rows re-read after every push, out-of-bounds probe at any position", kani: false },
        H { name: "collapse_boundaries", props: &["C11", "C08", "C09", "C10", "C18", "C20", "C01"], nargs: 5, pre: pre_collapse, doms: doms_collapse, run: run_collapse, panic_ok: false,
            bound: "CollapseSequence at the top, over ConsecutiveIndexPairs, inside a tuple and inside a slice region: three strings over a 3-value domain; boundaries none / clear / merge_regions / clone / clone_from into a pre-filled destination / reserve_regions between pushes; and over an encoded HuffmanContainer fed decoded read items (prefix / extension / empty); inside SliceRegion<.., IndexOptimized> over consecutive pairs (the benchmark composition), two rounds with an optional clear", kani: false },
    ]
}
