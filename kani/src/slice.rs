//! C13: positional accessors of slice read items (region-backed and owned-borrowed) are exact and fail-stop.
use crate::util::*;
use flatcontainer::{IntoOwned, MirrorRegion, Push, Region, SliceRegion};

const A: [u8; 3] = [10, 11, 12];
const B: [u8; 3] = [20, 21, 22];

/// Two adjacent items of lengths `n0`, `n1`; read item `which` at position `k`.
pub fn check_get(n0: usize, n1: usize, which: usize, k: usize) {
    vassume!(n0 <= 3 && n1 <= 3 && which < 2);
    let mut r = <SliceRegion<MirrorRegion<u8>>>::default();
    let i0 = r.push(&A[..n0]);
    let i1 = r.push(&B[..n1]);
    let (idx, exp, n) = if which == 0 { (i0, &A, n0) } else { (i1, &B, n1) };
    let item = r.index(idx);
    vassert!(item.len() == n, "VF:slice_get.len");
    vassert!(item.is_empty() == (n == 0), "VF:slice_get.is_empty");
    // iteration agrees with get / len, also when stepping past the end of *this* item (C13)
    let nth = item.iter().nth(k);
    vassert!(nth == if k < n { Some(exp[k]) } else { None }, "VF:slice_get.iter_nth");
    vassert!(item.iter().count() == n, "VF:slice_get.iter_count");
    if k <= 4 {
        vassert!(item.iter().skip(k).count() == n.saturating_sub(k), "VF:slice_get.iter_skip");
        vassert!(item.iter().step_by(k + 1).count() == (n + k) / (k + 1), "VF:slice_get.iter_step_by");
    }
    vassert!(item.iter().last() == if n > 0 { Some(exp[n - 1]) } else { None }, "VF:slice_get.iter_last");
    vcover!(k >= n, "out-of-bounds position reachable");
    let v = item.get(k); // must panic for k >= n
    vassert!(k < n, "VF:slice_get.returned_out_of_bounds");
    vassert!(v == exp[k], "VF:slice_get.value");
}

/// Same through the owned-borrowed representation.
pub fn check_get_owned(n: usize, k: usize) {
    vassume!(n <= 3);
    let owned: Vec<u8> = A[..n].to_vec();
    let item = <<SliceRegion<MirrorRegion<u8>> as Region>::ReadItem<'_> as IntoOwned>::borrow_as(&owned);
    vassert!(item.len() == n, "VF:slice_get_owned.len");
    vassert!(item.iter().nth(k) == if k < n { Some(A[k]) } else { None }, "VF:slice_get_owned.iter_nth");
    vassert!(item.iter().count() == n, "VF:slice_get_owned.iter_count");
    let v = item.get(k);
    vassert!(k < n, "VF:slice_get_owned.returned_out_of_bounds");
    vassert!(v == A[k], "VF:slice_get_owned.value");
}

fn run_get(v: &[u64]) {
    check_get(v[0] as usize, v[1] as usize, v[2] as usize, v[3] as usize)
}
fn pre_get(v: &[u64]) -> bool {
    v[0] <= 3 && v[1] <= 3 && v[2] < 2
}
fn doms_get() -> Vec<Vec<u64>> {
    vec![range(4), range(4), range(2), crate::boundary()]
}
fn run_get_owned(v: &[u64]) {
    check_get_owned(v[0] as usize, v[1] as usize)
}
fn pre_get_owned(v: &[u64]) -> bool {
    v[0] <= 3
}
fn doms_get_owned() -> Vec<Vec<u64>> {
    vec![range(4), crate::boundary()]
}
crate::kani_twin!(slice_get_oob, 4, pre_get, run_get, 5);
crate::kani_twin!(slice_get_owned_oob, 2, pre_get_owned, run_get_owned, 5);

pub fn harnesses() -> Vec<crate::H> {
    vec![
        crate::H { name: "slice_get_oob", props: &["C13"], nargs: 4, pre: pre_get, doms: doms_get, run: run_get, panic_ok: true,
            bound: "two adjacent items of length 0..3 in SliceRegion<MirrorRegion<u8>>, either item, any position (full usize under Kani)", kani: true },
        crate::H { name: "slice_get_owned_oob", props: &["C13"], nargs: 2, pre: pre_get_owned, doms: doms_get_owned, run: run_get_owned, panic_ok: true,
            bound: "owned-borrowed ReadSlice of length 0..3, any position (full usize under Kani)", kani: true },
    ]
}
