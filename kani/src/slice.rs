//! C13: positional accessors of slice read items (region-backed and owned-borrowed) are exact and fail-stop.
use flatcontainer::{IntoOwned, MirrorRegion, Push, Region, SliceRegion};

const A: [u8; 3] = [10, 11, 12];
const B: [u8; 3] = [20, 21, 22];

/// Two adjacent items of lengths `n0`, `n1`; read item `which` at position `k`.
pub fn check_get(n0: usize, n1: usize, which: usize, k: usize) {
    vassume!(n0 <= 3 && n1 <= 3 && which < 2);
    let mut r = <SliceRegion<MirrorRegion<u8>>>::default();
    let i0 = r.push(&A[..n0]);
    let i1 = r.push(&B[..n1]);
    let (idx, exp, n) = if which == 0 { (i0, &A, n0) } else { (i1, &B, n1) };
    let item = r.index(idx);
    vassert!(item.len() == n, "VF:slice_get.len");
    vassert!(item.is_empty() == (n == 0), "VF:slice_get.is_empty");
    vcover!(k >= n, "out-of-bounds position reachable");
    let v = item.get(k); // must panic for k >= n
    vassert!(k < n, "VF:slice_get.returned_out_of_bounds");
    vassert!(v == exp[k], "VF:slice_get.value");
}

/// Same through the owned-borrowed representation.
pub fn check_get_owned(n: usize, k: usize) {
    vassume!(n <= 3);
    let owned: Vec<u8> = A[..n].to_vec();
    let item = <<SliceRegion<MirrorRegion<u8>> as Region>::ReadItem<'_> as IntoOwned>::borrow_as(&owned);
    vassert!(item.len() == n, "VF:slice_get_owned.len");
    let v = item.get(k);
    vassert!(k < n, "VF:slice_get_owned.returned_out_of_bounds");
    vassert!(v == A[k], "VF:slice_get_owned.value");
}

#[cfg(kani)]
#[kani::proof]
#[kani::unwind(5)]
fn slice_get_oob() {
    check_get(kani::any(), kani::any(), kani::any(), kani::any());
}

#[cfg(kani)]
#[kani::proof]
#[kani::unwind(5)]
fn slice_get_owned_oob() {
    check_get_owned(kani::any(), kani::any());
}
