//! C05 / C19: `Stride` against its documented rule, from an arbitrary well-formed state (loop-free, full domain).
use flatcontainer::impls::index::Stride;

pub fn mk(kind: u8, s: usize, c: usize, r: usize) -> Stride {
    match kind % 4 {
        0 => Stride::Empty,
        1 => Stride::Zero,
        2 => Stride::Striding(s, c),
        _ => Stride::Saturated(s, c, r),
    }
}

/// Representation invariant (same as `Stride::wf` in the Verus world).
pub fn wf(st: &Stride) -> bool {
    match *st {
        Stride::Empty | Stride::Zero => true,
        Stride::Striding(s, c) => c >= 2 && s.checked_mul(c - 1).is_some(),
        Stride::Saturated(s, c, r) => s >= 1 && c >= 2 && r >= 1 && s.checked_mul(c - 1).is_some() && c.checked_add(r).is_some(),
    }
}

/// The documented acceptance rule, computed from the representation without overflow.
pub fn continues(st: &Stride, item: usize) -> bool {
    match *st {
        Stride::Empty => item == 0,
        Stride::Zero => true,
        Stride::Striding(s, c) => s.checked_mul(c) == Some(item) || item == s * (c - 1),
        Stride::Saturated(s, c, _r) => item == s * (c - 1),
    }
}

pub fn pre_push(kind: u8, s: usize, c: usize, r: usize) -> bool {
    let st = mk(kind, s, c, r);
    wf(&st) && st.len() < usize::MAX
}

pub fn pre_index(kind: u8, s: usize, c: usize, r: usize, index: usize) -> bool {
    let st = mk(kind, s, c, r);
    wf(&st) && index < st.len()
}

/// `index(i)` for `i < len` is the i-th element of the documented sequence.
pub fn check_index(kind: u8, s: usize, c: usize, r: usize, index: usize) {
    vassume!(pre_index(kind, s, c, r, index));
    let st = mk(kind, s, c, r);
    let expect = match st {
        Stride::Empty => unreachable!(),
        Stride::Zero => 0,
        Stride::Striding(s, _) => s * index,
        Stride::Saturated(s, c, _) => s * if index < c { index } else { c - 1 },
    };
    vassert!(st.index(index) == expect, "VF:stride_index.value");
}

pub fn check_push(kind: u8, s: usize, c: usize, r: usize, item: usize) {
    let before = mk(kind, s, c, r);
    vassume!(pre_push(kind, s, c, r));
    let len = before.len();
    let expect = continues(&before, item);
    let mut st = before;
    let accepted = st.push(item);
    vassert!(accepted == expect, "VF:stride_push.accept_rule");
    if accepted {
        vassert!(st.len() == len + 1, "VF:stride_push.len");
        vassert!(st.index(len) == item, "VF:stride_push.view_append.new");
        if len > 0 {
            vassert!(st.index(0) == before.index(0), "VF:stride_push.view_append.first");
            vassert!(st.index(len - 1) == before.index(len - 1), "VF:stride_push.view_append.last");
        }
        if len > 1 {
            vassert!(st.index(1) == before.index(1), "VF:stride_push.view_append.second");
        }
    } else {
        vassert!(st == before, "VF:stride_push.reject_untouched");
    }
    vcover!(accepted, "accepted reachable");
    vcover!(!accepted, "rejected reachable");
}

fn run_push(v: &[u64]) {
    check_push(v[0] as u8, v[1] as usize, v[2] as usize, v[3] as usize, v[4] as usize)
}
fn pre_push_v(v: &[u64]) -> bool {
    v[0] < 4 && pre_push(v[0] as u8, v[1] as usize, v[2] as usize, v[3] as usize)
}
fn run_index(v: &[u64]) {
    check_index(v[0] as u8, v[1] as usize, v[2] as usize, v[3] as usize, v[4] as usize)
}
fn pre_index_v(v: &[u64]) -> bool {
    v[0] < 4 && pre_index(v[0] as u8, v[1] as usize, v[2] as usize, v[3] as usize, v[4] as usize)
}
fn doms() -> Vec<Vec<u64>> {
    let b = crate::boundary();
    vec![vec![0, 1, 2, 3], b.clone(), b.clone(), b.clone(), b]
}

pub fn harnesses() -> Vec<crate::H> {
    vec![
        crate::H { name: "stride_push_contract", props: &["C05", "C19"], nargs: 5, pre: pre_push_v, doms, run: run_push, panic_ok: false,
            bound: "any well-formed Stride state and any item, over a 23-value boundary alphabet per usize argument (counterexample search only; the proof is Verus')", kani: false },
        crate::H { name: "stride_index_contract", props: &["C05"], nargs: 5, pre: pre_index_v, doms, run: run_index, panic_ok: false,
            bound: "any well-formed Stride state and any in-bounds position, over a 23-value boundary alphabet per usize argument (counterexample search only)", kani: false },
    ]
}
