//! Small helpers for building inputs from scalar arguments.

pub fn range(n: u64) -> Vec<u64> {
    (0..n).collect()
}

/// Element bytes used by the native enumeration (Kani uses the full `u8` domain).
pub fn bytes() -> Vec<u64> {
    vec![0, 1, 255]
}

pub fn all_le(v: &[u64], lo: usize, hi: usize, max: u64) -> bool {
    v[lo..hi].iter().all(|x| *x <= max)
}

/// A small catalogue of strings with 1-, 2-, 3- and 4-byte scalars, a combining sequence and the empty string.
pub const STRINGS: [&str; 6] = ["", "ab", "é", "€", "𝄞", "e\u{301}"];

pub fn string(i: u64) -> &'static str {
    STRINGS[(i as usize) % STRINGS.len()]
}

pub fn collect_heap<F: FnOnce(&mut dyn FnMut(usize, usize))>(f: F) -> Vec<(usize, usize)> {
    let mut out = Vec::new();
    f(&mut |a, b| out.push((a, b)));
    out
}
