#!/bin/bash
# Runs every quick check on the unchanged /repo tree, rewrites the evidence, regenerates and validates MANIFEST.json.
# Use before every commit that should carry evidence.  Exit 0 only if every check exits 0.
if [ -n "$(git -C ${VERIF_REPO:-/repo} status --short)" ]; then echo "selfcheck: the working tree of /repo is not clean — refusing to regenerate evidence"; exit 2; fi
cd "$(dirname "$0")"
[ -z "$(git -C /repo status --porcelain -- src)" ] || { echo "/repo/src is modified: refusing"; exit 2; }
unset VERIF_EVIDENCE_DIR
./gen_manifest.py || exit 2
bad=0
for p in $(python3 -c "import json; print(' '.join(c['property_id'] for c in json.load(open('MANIFEST.json'))['checks']))"); do
  out=$(./check.py $p --tier quick 2>&1); rc=$?
  echo "$p rc=$rc $(echo "$out" | tail -1 | cut -c1-150)"
  [ $rc -eq 0 ] || bad=1
done
python3-vt - <<'PY' || bad=1
import json, jsonschema, glob
jsonschema.validate(json.load(open('/verif/MANIFEST.json')), json.load(open('/root/.vp/MANIFEST.schema.json')))
s = json.load(open('/root/.vp/EVIDENCE.schema.json'))
m = json.load(open('/verif/MANIFEST.json'))
for c in m['checks']:
    e = json.load(open(c['evidence_file']))
    jsonschema.validate(e, s)
    cov = e['coverage']
    assert e['level'] == c['level_claimed']['category'], c['property_id']
    if e['level'] == 'proof':
        assert cov['obligations'] == cov['discharged'] >= 1, (c['property_id'], cov['obligations'], cov['discharged'])
    assert e.get('violations', 0) == 0
print('manifest + evidence valid for', len(m['checks']), 'checks')
PY
exit $bad
