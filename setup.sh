#!/bin/sh
# Offline setup: nothing to fetch; pre-build the native replay binary so the first check is not slowed down.
set -e
cd "$(dirname "$0")"
mkdir -p build evidence replays
cp /repo/Cargo.lock kani/Cargo.lock 2>/dev/null || true
(cd kani && CARGO_NET_OFFLINE=true cargo build --offline --bin replay >/dev/null 2>&1 || true)
exit 0
