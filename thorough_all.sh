#!/bin/bash
# Runs the thorough tier of every claimed check (optionally against a repository copy in $VERIF_REPO) and prints one line
# per property.  Evidence goes to $VERIF_EVIDENCE_DIR (default: a scratch directory, so that committed evidence stays quick-tier).
export VERIF_EVIDENCE_DIR=${VERIF_EVIDENCE_DIR:-/tmp/verif_thorough_evidence}
cd "$(dirname "$0")"
REPO=${VERIF_REPO:-/repo}
export VERIF_REPO=$REPO
if [ "$REPO" != "/repo" ]; then sed -i "s|path = \"/repo\"|path = \"$REPO\"|" kani/Cargo.toml; fi
for c in ${*:-C01 C02 C03 C04 C05 C06 C07 C08 C09 C10 C11 C12 C13 C14 C15 C16 C17 C18 C19 C20}; do
  s=$(date +%s)
  ./check.py $c --tier thorough > /tmp/thorough_$c.log 2>&1; rc=$?
  echo "$c rc=$rc $(( $(date +%s) - s ))s $(tail -n 1 /tmp/thorough_$c.log)"
done
