"""Bounded stand-ins: Kani harnesses and native exhaustive drivers.  Always labelled bounded; never counted as proved."""


def run(pid, cfg, tier, seed, repo):
    report = dict(summary="none", evaluations=0, distinct_nontrivial=0, rule="none", samples=[], harnesses=[])
    return dict(report=report, violations=[], undecided=[], cmds=[])


def replay_driver(r, path):
    print("no native driver registered")
    return 2
