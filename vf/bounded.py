"""Bounded stand-ins: native bounded-exhaustive search and Kani harnesses over the same harness bodies (vk crate).
Always labelled bounded; never counted as proved."""
import os
import re
import subprocess
import time

import cex

VERIF = os.path.dirname(os.path.dirname(os.path.abspath(__file__)))
KANI_DIR = os.path.join(VERIF, "kani")
ENV = dict(os.environ, CARGO_NET_OFFLINE="true", RUST_BACKTRACE="0", CARGO_TARGET_DIR=os.path.join(KANI_DIR, "target"))


# Markers that concern only some of the properties a harness serves (longest prefix wins; default: all of the harness's).
MARKER_PROPS = {
    "VF:index.": ["C05", "C01", "C02", "C03"],
    "VF:index.heap.": ["C18"],
    "VF:index.heap.cost_differs_from_documented_rule": ["C19"],
    "VF:index.heap.list_cost_differs_from_documented_rule": ["C19"],
    "VF:index.heap.vec_cost": ["C19", "C18"],
    "VF:index.heap.reserve_allocates_for_strided_sequence": ["C19"],
    "VF:index.clear": ["C05", "C08"],
    "VF:index.push_after_clear": ["C05", "C08"],
    "VF:index.reserve_changed_contents": ["C05", "C10"],
    "VF:index.with_capacity_not_empty": ["C05", "C10"],
    "VF:index.index_past_end_returned": ["C13", "C03", "C05"],
    "VF:slice.": ["C01", "C02"],
    "VF:slice.forms.": ["C20"],
    "VF:slice_opt.": ["C01", "C02", "C03", "C05"],
    "VF:slice_opt.get": ["C01", "C02", "C03", "C05", "C13"],
    "VF:slice_opt.accessors_disagree": ["C13"],
    "VF:dense_owned.": ["C12", "C01", "C20"],
    "VF:flatstack_ctor.": ["C10", "C03"],
    "VF:ref_forms.": ["C20"],
    "VF:ref_forms.read_differs": ["C20", "C01", "C02"],
    "VF:values.zst.": ["C01"],
    "VF:coded_life.merge": ["C10", "C01"],
    "VF:values.": ["C01", "C14"],
    "VF:values.float.read_differs": ["C01"],
    "VF:values.tuple.read_differs": ["C01"],
    "VF:dictionary.empty_refused": ["C07", "C01"],
    "VF:slice_opt.forms.": ["C20"],
    "VF:columns_coded.": ["C10"],
    "VF:columns_coded.clear": ["C08"],
    "VF:collapse.reserve": ["C11", "C10"],
    "VF:collapse.huffman": ["C11", "C20"],
    "VF:collapse.clone_from_used_bytes_differ_from_clone": ["C11", "C09", "C18"],
    "VF:wrapped.region_to_region_next_generation": ["C14", "C20"],
    "VF:owned.forms.": ["C20"],
    "VF:owned.forms.read": ["C20", "C01"],
    "VF:owned.forms.earlier_read_changed": ["C02"],
    "VF:string.forms.": ["C20"],
    "VF:columns.": ["C12", "C01", "C02"],
    "VF:columns.row.": ["C12", "C01", "C02", "C13"],
    "VF:columns.dense_indices": ["C12"],
    "VF:string.": ["C04", "C01", "C02"],
    "VF:string.valid_utf8": ["C04"],
    "VF:string.cip.dense_indices": ["C12"],
    "VF:string.columns.merge_dense": ["C12", "C10"],
    "VF:string.columns.merge_len": ["C12", "C10", "C01"],
    "VF:string.columns.len": ["C12", "C01", "C02"],
    "VF:string.columns.forms.": ["C20"],
    "VF:string.slice.len": ["C01", "C02"],
    "VF:string.slice.into_owned": ["C14", "C01"],
    "VF:columns.forms.": ["C20", "C14"],
    "VF:option.roundtrip": ["C01", "C02"],
    "VF:result.roundtrip": ["C01", "C02"],
    "VF:tuple.roundtrip": ["C01", "C02"],
    "VF:long.read_differs_from_pushed": ["C01", "C02"],
    "VF:long.index_differs_from_twin": ["C08", "C10", "C09"],
    "VF:columns.get.returned_out_of_bounds": ["C13"],
    "VF:collapse.": ["C11"],
    "VF:collapse.after_clear_read": ["C11", "C08"],
    "VF:collapse.after_clear_like_fresh": ["C08"],
    "VF:collapse.after_merge_like_fresh": ["C10"],
    "VF:collapse.clone": ["C11", "C09"],
    "VF:collapse.plain": ["C11"],
    "VF:collapse.after_merge_read": ["C11", "C10"],
    "VF:slice.reserve": ["C10"],
    "VF:reserve.": ["C10"],
    "VF:reserve.changed_existing_read": ["C10", "C02"],
    "VF:columns.get": ["C13"],
    "VF:huffman.": ["C06"],
    "VF:huffman.read_differs_from_pushed": ["C06", "C01", "C02", "C10"],
    "VF:huffman.raw_roundtrip": ["C06", "C01"],
    "VF:huffman.clone_onto_differs_from_pushed": ["C06", "C01"],
    "VF:huffman.empty_code_book": ["C06", "C10", "C01"],
    "VF:huffman.after_clear_not_raw": ["C06", "C08"],
    "VF:huffman.stats_survived_clear": ["C06", "C08"],
    "VF:coded_composite.": ["C10", "C01"],
    "VF:coded_composite.clear": ["C08", "C01"],
    "VF:coded_life.clear": ["C08"],
    "VF:coded_life.reserve": ["C10"],
    "VF:huffman.forms.": ["C20"],
    "VF:huffman.forms.next_generation": ["C20", "C10", "C06"],
    "VF:dictionary.": ["C07"],
    "VF:dictionary.read_differs_from_pushed": ["C07", "C01", "C04", "C10"],
    "VF:dictionary.covered_value_refused": ["C07", "C01", "C10"],
    "VF:dictionary.reserve": ["C10"],
    "VF:dictionary.reserve.earlier_read_changed": ["C10", "C02", "C07"],
    "VF:dictionary.earlier_read_changed": ["C07", "C02"],
    "VF:dictionary.cleared_region_refused": ["C07", "C08"],
    "VF:option.forms.": ["C20"],
    "VF:result.forms.": ["C20"],
    "VF:tuple.forms.": ["C20"],
    "VF:option.into_owned": ["C14", "C01"],
    "VF:result.into_owned": ["C14", "C01"],
    "VF:tuple.into_owned": ["C14", "C01"],
    "VF:intoowned.": ["C14"],
    "VF:intoowned.slice.clone_onto": ["C14", "C01"],
    "VF:intoowned.slice.into_owned": ["C14", "C01"],
    "VF:intoowned.columns.clone_onto": ["C14", "C01"],
    "VF:intoowned.columns.into_owned": ["C14", "C01"],
    "VF:intoowned.nested.clone_onto": ["C14", "C01"],
    "VF:intoowned.nested.into_owned": ["C14", "C01"],
    "VF:intoowned.cip_opt": ["C12", "C01"],
    "VF:wrapped.": ["C15"],
    "VF:wrapped.into_owned": ["C14"],
    "VF:wrapped.clone_onto": ["C14"],
    "VF:wrapped.borrow_as": ["C14"],
    "VF:wrapped.region_to_region": ["C14", "C20"],
    "VF:cmp.": ["C15"],
    "VF:intoowned.slice.region_to_region": ["C14", "C20", "C13"],
    "VF:intoowned.slice.region_to_region_index": ["C20"],
    "VF:intoowned.cip": ["C14", "C20", "C12"],
    "VF:intoowned.optslice": ["C14", "C20"],
    "VF:intoowned.cip.accessors": ["C13", "C12", "C01"],
    "VF:intoowned.cip.after_clear": ["C12", "C08"],
    "VF:collapse.clone_from": ["C11", "C09", "C01"],
    "VF:collapse.slice_opt": ["C11", "C01"],
    "VF:wrapped.region_to_region_eq": ["C14", "C15"],
    "VF:intoowned.columns.region_to_region": ["C14", "C20"],
    "VF:intoowned.columns.region_to_region_index": ["C12"],
    "VF:intoowned.nested.region_to_region": ["C14", "C20"],
    "VF:flatstack.": ["C03"],
    "VF:serde.": ["C16"],
    "VF:serde.collapse.": ["C16", "C11"],
    "VF:flatstack.clone_from": ["C03", "C09"],
    "VF:flatstack.get.returned_out_of_bounds": ["C03", "C13"],
}


def marker_filters(pid):
    """(ignore, only) prefix lists for the native search when checking property `pid`."""
    ignore = [m for m, ps in MARKER_PROPS.items() if pid not in ps]
    only = [m for m, ps in MARKER_PROPS.items() if pid in ps]
    return ignore, only


def registry():
    ok, path, log = cex.build_replay("debug")
    if not ok:
        return None, log
    p = subprocess.run([path, "list"], capture_output=True, text=True, env=ENV)
    out = []
    for ln in p.stdout.splitlines():
        f = ln.split("\t")
        if len(f) >= 6:
            out.append(dict(name=f[0], props=f[1].split(","), nargs=int(f[2]), kani=f[3] == "kani=true", panic_ok=f[4] == "panic_ok=true", bound=f[5]))
    return out, ""


def native_search(h, seed, timeout=1800, known=(), pid=None, samples=400000):
    """Bounded-exhaustive enumeration of the harness's argument domains in both build profiles."""
    res = dict(harness=h["name"], engine="native bounded-exhaustive enumeration", bound=h["bound"], searched=0, profiles=[], found=None, samples=[], wall_s=0.0)
    t0 = time.time()
    errors = []
    for profile in ("debug", "release"):
        ok, path, log = cex.build_replay(profile)
        if not ok:
            res["error"] = "build failed: " + log[-600:]
            return res
        try:
            p = subprocess.run([path, "search", h["name"], str(seed)], capture_output=True, text=True, timeout=timeout, env=dict(ENV, VK_SAMPLES=str(samples), VK_KNOWN="|".join(known), VK_IGNORE="|".join(marker_filters(pid)[0]) if pid else "", VK_ONLY="|".join(marker_filters(pid)[1]) if pid else ""))
        except subprocess.TimeoutExpired:
            res["error"] = f"{profile}: search timeout"
            return res
        m = re.search(r"SEARCHED (\d+) inputs.*exhaustive=(\w+)", p.stdout)
        n = int(m.group(1)) if m else 0
        res["searched"] += n
        res["profiles"].append(dict(profile=profile, searched=n, exhaustive=(m.group(2) == "true") if m else None))
        s = re.search(r"SAMPLE (\S+) ([0-9 ]+)", p.stdout)
        if s and len(res["samples"]) < 2:
            res["samples"].append(f"{s.group(1)}({s.group(2).strip().replace(' ', ', ')}) [{profile}]")
        kh = re.search(r"KNOWNHIT (\S+) ([0-9 ]+) :: (.*)", p.stdout)
        if kh:
            res.setdefault("known_hits", []).append(kh.group(3).strip())
        f = re.search(r"FOUND (\S+) ([0-9 ]+)", p.stdout)
        if f:
            msg = re.search(r"MESSAGE (.*)", p.stdout)
            res["found"] = dict(inputs=[int(x) for x in f.group(2).split()], profile=profile, message=msg.group(1).strip() if msg else "")
            break
        if p.returncode not in (0, 1):
            # the enumeration process died (abort / signal, e.g. a non-unwinding panic): nothing is decided in this
            # profile, but the other profile is still searched — it may well exhibit the input
            errors.append(f"{profile}: search exited {p.returncode}: {p.stdout[-200:]}{p.stderr[-200:]}")
    if errors and not res["found"]:
        res["error"] = "; ".join(errors)
    res["wall_s"] = round(time.time() - t0, 2)
    return res


def parse_kani(out):
    """Split cargo-kani's regular output into per-harness check lists."""
    res = {}
    cur = None
    for block in re.split(r"\n(?=Checking harness )", out):
        m = re.match(r"Checking harness (\S+?)\.\.\.", block)
        if not m:
            continue
        name = m.group(1).split("::")[-1]
        checks = []
        for cm in re.finditer(r"Check \d+: (\S+)\n\s+- Status: (\w+)\n\s+- Description: \"(.*?)\"\n(?:\s+- Location: (.*?)\n)?", block):
            checks.append(dict(id=cm.group(1), status=cm.group(2), desc=cm.group(3), loc=cm.group(4) or ""))
        verdict = re.search(r"VERIFICATION:- (\w+)", block)
        t = re.search(r"Verification Time: ([0-9.]+)s", block)
        res[name] = dict(checks=checks, verdict=verdict.group(1) if verdict else None, time_s=float(t.group(1)) if t else None,
                         oom="out of memory" in block.lower() or "std::bad_alloc" in block)
    return res


def kani_run(harnesses, jobs, timeout):
    if not harnesses:
        return {}, "", 0.0
    if not os.path.exists(os.path.join(KANI_DIR, "Cargo.lock")):
        subprocess.run(["cp", "/repo/Cargo.lock", KANI_DIR])
    cmd = ["cargo", "kani", "--no-default-features", "--output-format", "regular"]   # (--jobs would force terse output, which drops per-check status)
    for h in harnesses:
        cmd += ["--harness", h]
    t0 = time.time()
    try:
        p = subprocess.run(cmd, cwd=KANI_DIR, capture_output=True, text=True, timeout=timeout, env=ENV)
        out = p.stdout + p.stderr
    except subprocess.TimeoutExpired as e:
        out = (e.stdout or b"").decode(errors="replace") if isinstance(e.stdout, bytes) else (e.stdout or "")
        out += "\nKANI-TIMEOUT"
        subprocess.run(["pkill", "-x", "cbmc"])
    return parse_kani(out), out, time.time() - t0


def kani_verdict(h, r):
    """-> (violations: [marker], undecided: [reason], stats)"""
    viol, und = [], []
    if r is None or r.get("verdict") is None:
        return viol, [f"kani produced no verdict for {h['name']} (timeout / crash / out of memory)"], {}
    n_fail = n_ok = 0
    covers = [c for c in r["checks"] if ".cover." in c["id"]]
    for c in r["checks"]:
        if c["status"] == "FAILURE":
            n_fail += 1
            if "VF:" in c["desc"]:
                viol.append(c["desc"].strip('"'))
            elif "unwinding assertion" in c["desc"]:
                und.append(f"{h['name']}: unwinding bound too small ({c['loc']})")
            elif not h["panic_ok"] and ("/repo/src" in c["loc"] or "flatcontainer::" in c["loc"]):
                viol.append(f"panic in code under test: {c['desc']} at {c['loc']}")
        elif c["status"] == "UNDETERMINED":
            und.append(f"{h['name']}: undetermined check {c['id']}")
        elif c["status"] == "SUCCESS":
            n_ok += 1
    for c in covers:
        if c["status"] != "SATISFIED":
            und.append(f"{h['name']}: cover not satisfied ({c['desc']}) — harness assumptions may be vacuous")
    return viol, und, dict(checks=len(r["checks"]), success=n_ok, failed=n_fail, covers_satisfied=sum(1 for c in covers if c["status"] == "SATISFIED"), time_s=r.get("time_s"))


def run(pid, cfg, tier, seed, repo):
    report = dict(summary="none", evaluations=0, distinct_nontrivial=0, rule="none", samples=[], harnesses=[], label="bounded — stand-in, never counted as proved")
    out = dict(report=report, violations=[], undecided=[], cmds=[])
    reg, log = registry()
    if reg is None:
        out["undecided"].append("vk crate does not build against the current tree: " + log[-400:])
        return out
    mine = [h for h in reg if pid in h["props"] and not (tier == "quick" and h["name"].endswith("_full"))]
    extra = cfg.get("drivers", [])
    if not mine and not extra:
        return out
    evaluations = distinct = 0
    # native bounded-exhaustive enumeration: every harness, both profiles
    for h in mine:
        r = native_search(h, seed, pid=pid, samples=3000000 if tier == "thorough" else 400000, known=[k[len(f"bounded.{h['name']}#"):] for k in cfg.get("_known_keys", []) if k.startswith(f"bounded.{h['name']}#")])
        report["harnesses"].append(r)
        evaluations += r["searched"]
        distinct += r["searched"]
        report["samples"] += r["samples"][:1]
        for msg in dict.fromkeys(r.get("known_hits", [])):
            for key, what in cfg.get("_known", {}).items():
                if key.startswith(f"bounded.{h['name']}#") and msg.startswith(key.split("#", 1)[1]):
                    out.setdefault("known_hits", []).append(what)
        if r.get("error"):
            out["undecided"].append(f"{h['name']}: {r['error']}")
            continue
        if r["found"]:
            f = r["found"]
            rp = cex.replay(h["name"], f["inputs"], env=dict(VK_IGNORE="|".join(marker_filters(pid)[0]), VK_ONLY="|".join(marker_filters(pid)[1])))
            out["violations"].append(dict(key=f"bounded.{h['name']}#{f['message'][:80]}", kind="input", harness=h["name"], inputs=f["inputs"], native=rp,
                                          text=f"bounded harness {h['name']} ({h['bound']}) violated on input {f['inputs']} [{f['profile']} profile]: {f['message']}",
                                          msg=f["message"]))
    out["cmds"].append("kani/target/{debug,release}/replay search <harness> (native bounded-exhaustive enumeration)")
    # Kani: symbolic element values for the harnesses that have a twin
    ktwins = [h for h in mine if h["kani"]]
    sel = ktwins if tier == "thorough" else [h for h in ktwins if h["name"] in cfg.get("kani_quick", [])]
    if sel:
        res, raw, wall = kani_run([h["name"] for h in sel], jobs=min(8, len(sel)), timeout=1500 if tier == "quick" else 5400)
        out["cmds"].append("cargo kani --harness " + " --harness ".join(h["name"] for h in sel))
        for h in sel:
            viol, und, stats = kani_verdict(h, res.get(h["name"]))
            report["harnesses"].append(dict(harness=h["name"], engine="kani 0.68 / cbmc 6.11 (bounded: unwinding assertions on)", bound=h["bound"], **stats))
            evaluations += stats.get("checks", 0)
            distinct += stats.get("success", 0)
            out["undecided"] += und
            for m in viol:
                # find a concrete input natively (same body), else report without one
                out["violations"].append(dict(key=f"bounded.{h['name']}#{m[:80]}", kind=None, text=f"kani harness {h['name']}: {m}", msg=m, world=None))
    report["evaluations"] = evaluations
    report["distinct_nontrivial"] = distinct
    report["rule"] = ("native: every combination of the per-argument domains that satisfies the harness precondition is one case (all are non-trivial: each runs the full harness body), in debug and release profiles; "
                      "kani: one case per checked property of the harness, non-trivial = status SUCCESS")
    report["summary"] = f"{len(mine)} harnesses, {evaluations} cases" + (f", kani on {len(sel)}" if sel else "")
    return out


def replay_driver(r, path):
    print("no native driver registered")
    return 2
