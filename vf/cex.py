"""Counterexample production and native replay against the real crate (/repo through the vk crate's path dep)."""
import os
import re
import subprocess
import time

VERIF = os.path.dirname(os.path.dirname(os.path.abspath(__file__)))
KANI_DIR = os.path.join(VERIF, "kani")
ENV = dict(os.environ, CARGO_NET_OFFLINE="true", RUST_BACKTRACE="0", CARGO_TARGET_DIR=os.path.join(KANI_DIR, "target"))

_built = {}


def build_replay(profile):
    """cargo build of the replay binary against /repo's current tree.  Returns (ok, path, log)."""
    if profile in _built:
        return _built[profile]
    if not os.path.exists(os.path.join(KANI_DIR, "Cargo.lock")):
        subprocess.run(["cp", "/repo/Cargo.lock", KANI_DIR])
    cmd = ["cargo", "build", "--offline", "--bin", "replay"] + (["--release"] if profile == "release" else [])
    p = subprocess.run(cmd, cwd=KANI_DIR, capture_output=True, text=True, env=ENV)
    path = os.path.join(KANI_DIR, "target", profile if profile == "release" else "debug", "replay")
    _built[profile] = (p.returncode == 0, path, p.stderr[-2000:])
    return _built[profile]


def search(harness, seed=0, timeout=120):
    """Native boundary-alphabet search in both build profiles.
    -> dict(found=bool, inputs=[..], profile=.., message=.., searched=int, log=..) ; found=None if it could not run."""
    out = dict(found=False, searched=0, log="")
    for profile in ("debug", "release"):
        ok, path, log = build_replay(profile)
        if not ok:
            return dict(found=None, log="replay build failed: " + log)
        try:
            p = subprocess.run([path, "search", harness, str(seed)], capture_output=True, text=True, timeout=timeout, env=ENV)
        except subprocess.TimeoutExpired:
            out["log"] += f"[{profile}] search timeout\n"
            continue
        out["log"] += f"[{profile}] " + p.stdout[-500:]
        m = re.search(r"SEARCHED (\d+)", p.stdout)
        if m:
            out["searched"] += int(m.group(1))
        if p.returncode == 2:
            return dict(found=None, log=out["log"] + " unknown harness")
        m = re.search(r"FOUND (\S+) ([0-9 ]+)", p.stdout)
        if m:
            msg = re.search(r"MESSAGE (.*)", p.stdout)
            out.update(found=True, inputs=[int(x) for x in m.group(2).split()], profile=profile, message=msg.group(1) if msg else "")
            return out
    return out


def replay(harness, inputs, profiles=("debug", "release"), env=None):
    """Run the harness body natively on concrete inputs.  -> list of dict(profile, rc, output).
    `env`: extra environment (the per-property marker filter, so that the replay names the assertion the search reported)."""
    res = []
    for profile in profiles:
        ok, path, log = build_replay(profile)
        if not ok:
            res.append(dict(profile=profile, rc=2, output="replay build failed: " + log))
            continue
        p = subprocess.run([path, "run", harness] + [str(x) for x in inputs], capture_output=True, text=True, env=dict(ENV, **(env or {})))
        res.append(dict(profile=profile, rc=p.returncode, output=(p.stdout + p.stderr)[:1500]))
    return res
