"""Rust-aware item extractor.

A small lexer (comments, strings, raw strings, chars vs lifetimes) plus a brace matcher.  Items are
located by *structural anchor* (file, impl-header pattern, fn name) and never by line number; the token
text is copied verbatim.  Nothing here interprets Rust beyond token boundaries and bracket nesting.
"""
import hashlib
import re
from dataclasses import dataclass, field


class ExtractError(Exception):
    """Anchor lost / construct not understood.  Always mapped to exit 2 (undecided), never to an alarm."""


@dataclass
class Tok:
    kind: str   # ident, punct, lit, lifetime, comment, ws
    text: str
    start: int
    end: int


_IDENT = re.compile(r"[A-Za-z_][A-Za-z0-9_]*")
_NUM = re.compile(r"[0-9][0-9A-Za-z_]*(\.[0-9][0-9A-Za-z_]*)?")


def lex(src: str):
    toks = []
    i, n = 0, len(src)
    while i < n:
        c = src[i]
        if c.isspace():
            j = i
            while j < n and src[j].isspace():
                j += 1
            toks.append(Tok("ws", src[i:j], i, j))
            i = j
        elif src.startswith("//", i):
            j = src.find("\n", i)
            j = n if j < 0 else j
            toks.append(Tok("comment", src[i:j], i, j))
            i = j
        elif src.startswith("/*", i):
            depth, j = 1, i + 2
            while j < n and depth:
                if src.startswith("/*", j):
                    depth += 1
                    j += 2
                elif src.startswith("*/", j):
                    depth -= 1
                    j += 2
                else:
                    j += 1
            toks.append(Tok("comment", src[i:j], i, j))
            i = j
        elif c == '"' or (c == 'b' and src.startswith('b"', i)):
            j = i + (2 if c == 'b' else 1)
            while j < n and src[j] != '"':
                j += 2 if src[j] == "\\" else 1
            j += 1
            toks.append(Tok("lit", src[i:j], i, j))
            i = j
        elif (m := re.match(r'b?r(#*)"', src[i:])) is not None:
            hashes = m.group(1)
            close = '"' + hashes
            j = src.find(close, i + m.end())
            if j < 0:
                raise ExtractError("unterminated raw string")
            j += len(close)
            toks.append(Tok("lit", src[i:j], i, j))
            i = j
        elif c == "'":
            # char literal or lifetime
            m = re.match(r"'(\\.[^']*|[^\\'])'", src[i:])
            if m:
                toks.append(Tok("lit", m.group(0), i, i + m.end()))
                i += m.end()
            else:
                m = re.match(r"'[A-Za-z_][A-Za-z0-9_]*", src[i:])
                if not m:
                    raise ExtractError(f"bad quote at {i}")
                toks.append(Tok("lifetime", m.group(0), i, i + m.end()))
                i += m.end()
        elif (m := _IDENT.match(src, i)) is not None:
            toks.append(Tok("ident", m.group(0), i, m.end()))
            i = m.end()
        elif (m := _NUM.match(src, i)) is not None:
            toks.append(Tok("lit", m.group(0), i, m.end()))
            i = m.end()
        else:
            toks.append(Tok("punct", c, i, i + 1))
            i += 1
    return toks


def code_tokens(toks):
    return [t for t in toks if t.kind not in ("ws", "comment")]


OPEN = {"(": ")", "[": "]", "{": "}"}
CLOSE = {v: k for k, v in OPEN.items()}


def match_bracket(ct, i):
    """ct: code tokens; ct[i] is an opening bracket; returns index of its closing partner."""
    depth = 0
    for j in range(i, len(ct)):
        t = ct[j].text
        if ct[j].kind == "punct" and t in OPEN:
            depth += 1
        elif ct[j].kind == "punct" and t in CLOSE:
            depth -= 1
            if depth == 0:
                return j
    raise ExtractError("unbalanced bracket")


def norm(text: str) -> str:
    """Token-normalised text (whitespace and comments removed) used for hashes and comparisons."""
    return " ".join(t.text for t in code_tokens(lex(text)))


def body_hash(text: str) -> str:
    return hashlib.sha256(norm(text).encode()).hexdigest()[:16]


@dataclass
class Item:
    kind: str            # impl / fn / struct / enum / mod / trait / other
    name: str            # fn/struct/enum/mod name, or normalised impl header
    src: str             # whole file text
    start: int           # byte offset of the first token of the item (after attributes)
    attr_start: int      # byte offset including leading attributes/doc comments
    head_end: int        # offset of the opening `{` (or `;`)
    end: int             # offset one past the closing `}` / `;`
    children: list = field(default_factory=list)
    file: str = ""
    rename: dict = field(default_factory=dict)   # alpha-renaming of the enclosing impl's type parameters (see SourceFile.impls)

    @property
    def header(self):
        return self.src[self.start:self.head_end].strip()

    @property
    def text(self):
        return self.src[self.start:self.end]

    @property
    def body(self):
        """Text including the outer braces."""
        return self.src[self.head_end:self.end]

    @property
    def line(self):
        return self.src.count("\n", 0, self.start) + 1

    @property
    def end_line(self):
        return self.src.count("\n", 0, self.end) + 1


ITEM_KW = {"impl", "fn", "struct", "enum", "mod", "trait", "type", "const", "static", "use", "macro_rules"}
QUAL = {"pub", "unsafe", "const", "async", "extern", "default"}


def parse_items(src: str, lo: int = 0, hi: int = None, file: str = ""):
    """Parse the items between byte offsets lo..hi (contents of a file, mod, impl or trait)."""
    toks = lex(src[lo:hi if hi is not None else len(src)])
    for t in toks:
        t.start += lo
        t.end += lo
    ct = code_tokens(toks)
    items = []
    i = 0
    n = len(ct)
    while i < n:
        attr_start = ct[i].start
        # attributes
        while i < n and ct[i].text == "#":
            j = i + 1
            if j < n and ct[j].text == "!":
                j += 1
            if j < n and ct[j].text == "[":
                i = match_bracket(ct, j) + 1
            else:
                break
        if i >= n:
            break
        start_i = i
        # qualifiers
        while i < n and ct[i].kind == "ident" and ct[i].text in QUAL:
            if ct[i].text == "pub" and i + 1 < n and ct[i + 1].text == "(":
                i = match_bracket(ct, i + 1) + 1
                continue
            if ct[i].text == "extern" and i + 1 < n and ct[i + 1].kind == "lit":
                i += 2
                continue
            if ct[i].text == "const" and i + 1 < n and ct[i + 1].kind == "ident" and ct[i + 1].text not in ("fn", "unsafe", "async", "extern"):
                break
            i += 1
        if i >= n:
            break
        kw = ct[i].text
        if kw not in ITEM_KW:
            # macro invocation or something else at item level: skip to `;` or matching brace group
            j = i
            while j < n and ct[j].text not in (";", "{", "(", "["):
                j += 1
            if j < n and ct[j].text in OPEN:
                j = match_bracket(ct, j)
                if j + 1 < n and ct[j + 1].text == ";":
                    j += 1
            items.append(Item("other", ct[i].text, src, ct[start_i].start, attr_start, ct[min(j, n - 1)].start, ct[min(j, n - 1)].end, file=file))
            i = j + 1
            continue
        # find end of header: first `{` or `;` at bracket depth 0 (angle brackets are not tracked;
        # `{` cannot occur inside generics/where clauses except in const-generic blocks, unused here)
        j = i
        depth = 0
        while j < n:
            t = ct[j].text
            if ct[j].kind == "punct" and t in ("(", "["):
                j = match_bracket(ct, j)
            elif ct[j].kind == "punct" and t == "{" and kw in ("use", "type", "const", "static"):
                j = match_bracket(ct, j)
            elif ct[j].kind == "punct" and t in ("{", ";") and depth == 0:
                break
            j += 1
        if j >= n:
            raise ExtractError("item without end")
        head_end = ct[j].start
        if ct[j].text == "{":
            k = match_bracket(ct, j)
        else:
            k = j
        end = ct[k].end
        if kw == "impl":
            name = " ".join(t.text for t in ct[i:j])
        elif kw == "macro_rules":
            name = ct[i + 2].text if i + 2 < n else "?"
        else:
            name = ct[i + 1].text if i + 1 < n else "?"
        it = Item(kw, name, src, ct[start_i].start, attr_start, head_end, end, file=file)
        if kw in ("impl", "mod", "trait") and ct[j].text == "{":
            it.children = parse_items(src, ct[j].end, ct[k].start, file=file)
        items.append(it)
        i = k + 1
    return items


class SourceFile:
    def __init__(self, path: str, rel: str = None):
        self.path = path
        self.rel = rel or path
        with open(path) as f:
            self.src = f.read()
        try:
            self.items = parse_items(self.src, file=self.rel)
        except ExtractError as e:
            raise ExtractError(f"{self.rel}: {e}")

    def walk(self, items=None, skip_test_mods=True):
        for it in (self.items if items is None else items):
            if skip_test_mods and it.kind == "mod":
                pre = self.src[it.attr_start:it.start]
                if "cfg(test)" in pre:
                    continue
            yield it
            if it.kind == "mod":
                yield from self.walk(it.children, skip_test_mods)

    def impls(self, pattern: str):
        """All impl blocks whose token-normalised header matches the regex `pattern` (full match)."""
        rx = re.compile("(?:" + pattern + r")(?: where .*)?")   # an added where-clause does not lose the anchor
        found = [it for it in self.walk() if it.kind == "impl" and rx.fullmatch(it.name)]
        if found:
            return found
        # Fallback: compare only `Trait<..> for Type<..>` — the generic parameter list after `impl` and the where-clause
        # are dropped on both sides, so that bounds moved between the two (or an added bound) do not lose the anchor.
        try:
            rx2 = re.compile(_impl_skeleton(pattern))
        except re.error:
            return []
        found = [it for it in self.walk() if it.kind == "impl" and rx2.fullmatch(_impl_skeleton(it.name))]
        if found:
            return found
        # Second fallback: the impl's type parameters were renamed.  Rename them positionally to the names the pattern
        # uses and compare skeletons again; the functions of a block matched this way carry the renaming, which the
        # world generator applies to their text (identifier tokens only).
        want = _impl_type_params(pattern)
        out = []
        for it in self.walk():
            if it.kind != "impl":
                continue
            have = _impl_type_params(it.name)
            if len(have) != len(want) or have == want or len(set(have)) != len(have):
                continue
            ren = {a: b for a, b in zip(have, want) if a != b}
            if set(ren.values()) & (set(have) - set(ren)):
                continue
            renamed = " ".join(ren.get(t, t) for t in it.name.split(" "))
            if rx.fullmatch(renamed) or rx2.fullmatch(_impl_skeleton(renamed)):
                for c in it.children:
                    c.rename = dict(ren)
                out.append(it)
        return out

    def impl(self, pattern: str) -> Item:
        found = self.impls(pattern)
        if len(found) != 1:
            raise ExtractError(f"{self.rel}: impl anchor /{pattern}/ matched {len(found)} blocks")
        return found[0]

    def fn(self, impl_pattern, name: str) -> Item:
        if impl_pattern is None:
            cands = [it for it in self.walk() if it.kind == "fn" and it.name == name]
        else:
            # all impl blocks matching the header pattern are searched (a type may have several inherent impl blocks);
            # the function itself must be unique among them
            cands = [c for blk in self.impls(impl_pattern) for c in blk.children if c.kind == "fn" and c.name == name]
        if len(cands) != 1:
            raise ExtractError(f"{self.rel}: fn anchor {impl_pattern}::{name} matched {len(cands)} items")
        return cands[0]

    def item(self, kind: str, name: str) -> Item:
        cands = [it for it in self.walk() if it.kind == kind and it.name == name]
        if len(cands) != 1:
            raise ExtractError(f"{self.rel}: {kind} {name} matched {len(cands)} items")
        return cands[0]


def _impl_skeleton(header: str) -> str:
    """`impl < G > Trait for Type where W`  ->  `Trait for Type` (works on token-normalised headers and on the
    regex patterns written against them)."""
    toks = header.split(" ")
    if toks and toks[0] == "impl":
        k = 1
        if k < len(toks) and toks[k] == "<":
            depth = 0
            while k < len(toks):
                if toks[k] == "<":
                    depth += 1
                elif toks[k] == ">":
                    depth -= 1
                    if depth == 0:
                        k += 1
                        break
                k += 1
        toks = toks[k:]
    depth = 0
    for i, t in enumerate(toks):
        if t == "<":
            depth += 1
        elif t == ">":
            depth -= 1
        elif t == "where" and depth == 0:
            toks = toks[:i]
            break
    return " ".join(toks)


def _impl_type_params(header: str):
    """Names of the type parameters in the generic list right after `impl` (lifetimes and const parameters skipped)."""
    toks = header.split(" ")
    if len(toks) < 2 or toks[0] != "impl" or toks[1] != "<":
        return []
    out, depth, k, expect = [], 0, 1, True
    while k < len(toks):
        t = toks[k]
        if t in ("<", "(", "["):
            depth += 1
            if depth == 1 and t == "<":
                expect = True
        elif t in (">", ")", "]"):
            depth -= 1
            if depth == 0:
                break
        elif depth == 1:
            if t == ",":
                expect = True
            elif expect:
                if t == "const":
                    expect = False
                elif t == "'":
                    expect = False
                elif re.fullmatch(r"[A-Za-z_][A-Za-z0-9_]*", t):
                    out.append(t)
                    expect = False
                else:
                    expect = False
        k += 1
    return out


def rename_idents(text: str, ren: dict) -> str:
    """Replace identifier tokens per `ren` (comments and string literals untouched)."""
    if not ren:
        return text
    out, pos = [], 0
    for t in code_tokens(lex(text)):
        if t.kind == "ident" and t.text in ren:
            out.append(text[pos:t.start])
            out.append(ren[t.text])
            pos = t.end
    out.append(text[pos:])
    return "".join(out)


def split_fn(it: Item):
    """(signature text without trailing ws, body text incl. braces) of a fn item."""
    if it.kind != "fn":
        raise ExtractError("not a fn")
    return rename_idents(it.src[it.start:it.head_end].rstrip(), it.rename), rename_idents(it.src[it.head_end:it.end], it.rename)


if __name__ == "__main__":
    import sys
    sf = SourceFile(sys.argv[1])
    def dump(items, ind=0):
        for it in items:
            print(" " * ind + f"{it.kind} {it.name[:100]}  L{it.line}-{it.end_line}")
            dump(it.children, ind + 2)
    dump(sf.items)
