"""Texts for MANIFEST.json (level claimed, trusted base, technique) per property."""
PENDING = "not claimed yet: the check for this property has not been built in this revision of /verif (see DESIGN.md for the plan)"
NA = {f"C{n:02d}": PENDING for n in range(1, 21)}
NA["C16"] = ("behaviour lives in serde-derive output and an external (de)serialiser; the crate has no function to put under contract and "
             "macro-generated code is outside the verifier's dialect — contract-based verification cannot express or decide it")


_T = "contract-based deductive verification (Verus) of functions extracted mechanically from /repo/src on every run"
_NOTE = ("Trusted: Verus+Z3 and vstd's std specs; usize=64 bit; GAT lifetimes erased (D1) so borrow checking stays rustc's job; "
         "assumed contract of from_utf8_unchecked; axiom 'Clone returns an equal value'; derive(Default) expansions modelled; "
         "impl headers replaced by contract-carrying bounds; members outside the dialect (closures, iterator adapters, macros, FnMut history) are "
         "dropped from the proof and listed in the evidence. Precondition of every push: fewer than 2^64 stored entries.")

TEXT = {
    "C01": dict(level="Unbounded deductive proof that for OwnedRegion, StringRegion, Vec, MirrorRegion, ResultRegion and — generically in their type parameters — "
                      "CollapseSequence, ConsecutiveIndexPairs, FlatStack, the index returned by push reads back the pushed abstract value (Push/Region trait contracts), and that "
                      "ReadSlice/ReadColumns accessors describe exactly that item. Generic proofs cover every composition of regions satisfying the contracts. "
                      "Push forms with closures (SliceRegion, OptionRegion, ColumnsRegion, tuples) and the codecs are outside the dialect.",
                ref="DESIGN.md §4 C01", note=_NOTE, technique=_T + "; round trip as a lemma over push/index contracts"),
    "C02": dict(level="Unbounded proof of the frame clause of every push contract (all previously issued indices stay issued and keep their value) and of the whole-view "
                      "append postconditions of Stride/IndexList/IndexOptimized/Vec (covering stride→spill and u32→u64 switches); lemma_frame_star extends it to arbitrary histories.",
                ref="DESIGN.md §4 C02", note=_NOTE, technique=_T + "; frame postconditions + induction lemma over histories"),
    "C03": dict(level="Unbounded proof of FlatStack::{default,with_capacity,copy,get,len,is_empty,reserve,clear} against an abstract sequence view, generic over every region and "
                      "every index container that satisfies the trait contracts (proved for Vec, IndexList, IndexOptimized); get proved fail-stop in a second reading. "
                      "extend/from_iter/iterators are outside the dialect.",
                ref="DESIGN.md §4 C03", note=_NOTE + " Fail-stop reading trusts the D7 models of panic and bounds checks.", technique=_T + " in a total and a fail-stop reading"),
    "C04": dict(level="Unbounded proof that the single unsafe call (from_utf8_unchecked) has its safety precondition valid_utf8 discharged from StringRegion's invariant for every "
                      "inner byte region, that all four accepted push forms store exactly encode_utf8 of the string, and that the wrappers (CollapseSequence, ConsecutiveIndexPairs, "
                      "FlatStack) only pass issued indices down; plus a mechanical scan that `unsafe` occurs once and no other write path into StringRegion exists.",
                ref="DESIGN.md §4 C04", note=_NOTE + " Serialisation (C16) is not covered.", technique=_T + "; unsafe precondition as proof obligation; program-text scan for write paths"),
    "C05": dict(level="Unbounded deductive proof (Verus) that Stride, IndexList, IndexOptimized and Vec implement exactly the pushed sequence: per-function contracts over abstract Seq views, "
                      "the documented acceptance rule of Stride::push, rejection leaves the state untouched, and absence of overflow/shift/index/unwrap panics (so checked and "
                      "wrapping builds agree). Iteration/extend/heap_size are outside the dialect.",
                ref="DESIGN.md §4 C05", note=_NOTE, technique=_T + "; native boundary search + replay for counterexamples"),
    "C08": dict(level="Unbounded proof that clear() and default() both establish `fresh` (content and bookkeeping equal to the initial state, capacity not included) for the index "
                      "containers, OwnedRegion, StringRegion, Vec, ResultRegion, SliceRegion, CollapseSequence (last_index == None), ConsecutiveIndexPairs (offsets == [0]) and FlatStack; "
                      "push contracts determine index and new abstract state from the old abstract state and the item only.",
                ref="DESIGN.md §4 C08", note=_NOTE, technique=_T + "; `fresh` postconditions on clear/default"),
    "C10": dict(level="Unbounded proof that reserve/with_capacity of Vec, IndexList, IndexOptimized and FlatStack::{reserve,with_capacity} leave the abstract view unchanged (resp. empty, fresh). "
                      "Region-level reserve_* / merge_* bodies (iterator adapters) are outside the dialect: bounded twins (reserve / merge over 17 compositions, coded leaves in 9 compositions, FlatStack::with_capacity / FromIterator versus default over coded and plain regions).",
                ref="DESIGN.md §4 C10", note=_NOTE, technique=_T),
    "C11": dict(level="Unbounded proof, generic in the inner region and item type, that CollapseSequence::push returns the previous index and leaves the inner region untouched exactly when "
                      "last_index is Some(l) and the item equals the item at l, otherwise stores the item and remembers its index; clear/default forget the last index.",
                ref="DESIGN.md §4 C11", note=_NOTE + " merge_regions / clone boundaries are outside the dialect.", technique=_T + " using vstd's PartialEqSpec as equality oracle"),
    "C12": dict(level="Unbounded proof, generic in the dense inner region and the offset container, that ConsecutiveIndexPairs::push returns exactly the number of items pushed since "
                      "default/clear, appends one offset, keeps the invariant (offsets start at 0, adjacent pairs are the inner indices), and index(k) reads the k-th item; "
                      "ColumnsRegion::index returns a row read item with exactly row k's length and cells. Columns push forms are outside the dialect.",
                ref="DESIGN.md §4 C12", note=_NOTE, technique=_T + "; debug_assert read as 'can never fire' (D6)"),
    "C13": dict(level="Unbounded proof of ReadSliceInner/ReadSlice/ReadColumnsInner/ReadColumns::{get,len,is_empty} and FlatStack::get in two readings of the same bodies: "
                      "total (i < len ⇒ no panic and the i-th element of this item) and fail-stop (normal return ⇒ i < len), down to Vec/IndexList/IndexOptimized indexing.",
                ref="DESIGN.md §4 C13", note=_NOTE + " Fail-stop reading trusts the D7 models of panic and bounds checks.", technique=_T + " in a total and a fail-stop reading; native search + replay for counterexamples"),
    "C19": dict(level="Unbounded proof of the accounting clauses on top of C05 (absorbed by the stride iff the documented rule accepts; otherwise exactly one entry spilled, 4 bytes while "
                      "values fit u32 and no u64 entry exists, 8 bytes after) and of ConsecutiveIndexPairs' dense outward indices; lemmas show dense and strided sequences are always absorbed.",
                ref="DESIGN.md §4 C19", note=_NOTE + " The link between abstract cost and the bytes heap_size reports is not part of the proof.", technique=_T + "; accounting postconditions + lemmas"),
    "C20": dict(level="Unbounded proof that each forwarding Push impl (OwnedRegion: &[T;N], &&[T;N], &&[T], Vec<T>, &Vec<T>; StringRegion: String, &String, &&str; MirrorRegion/Vec: &T, &&T; "
                      "ResultRegion: &Result) satisfies the canonical form's contract with an equal abstract value: same index, same stored content, same reads.",
                ref="DESIGN.md §4 C20", note=_NOTE + " Forms with their own closure/iterator code path are outside the dialect.", technique=_T),
    "C06": dict(level="Bounded (labelled as such): native bounded-exhaustive driver against the real crate — 16 (quick) / 349 (thorough) frequency profiles incl. single-symbol, Fibonacci-skewed (codes to 20 bits) "
                      "and 257/300/600 equiprobable u16 alphabets x item shapes covering every start/end bit offset x 1-2 merge generations; exact read-back after every push, contiguous bit ranges, "
                      "item bits = sum of code lengths, total cost equals a reference Huffman construction, outsider symbols never read back as something else, raw mode before merge / after clear. Deductive part (Verus, unbounded): BitIterator::next only — chunk length, cursor advance, extracted bits equal bits [lo, lo+n) MSB-first, no shift/arith overflow. "
                      "The rest of the container is built on BTreeMap/BinaryHeap, outside what Verus or Kani can execute here.",
                ref="DESIGN.md §4 C06", note="Trusted: the driver's oracle (reference Huffman cost, pushed sequences) and rustc's debug/release builds. Bounds as stated; nothing beyond them is decided.",
                technique="bounded-exhaustive native driver (stand-in; contract-based proof not applicable to BTreeMap-based code here)"),
    "C07": dict(level="Bounded (labelled as such): native bounded-exhaustive driver — 10x3 training sets (incl. few distinct strings pushed once each) over 1-2 source regions x 268 probe strings (all one-byte strings, dictionary entries, prefixes/extensions, "
                      "strings whose first byte is an assigned tag, empty) x second merge generation x clear; >1024 distinct strings across the summary's compaction; every push is refused or read back exactly and heavy hitters cost one byte. "
                      "Deductive part (Verus, unbounded): BytesMap::{get,len} and DictionaryCodec::decode (result is the tag's dictionary entry or the stored bytes).",
                ref="DESIGN.md §4 C07", note="Trusted: the driver's oracle and rustc's debug/release builds. Bounds as stated.",
                technique="bounded-exhaustive native driver (stand-in; contract-based proof not applicable to BTreeMap-based code here)"),
    "C09": dict(level="Bounded (labelled as such): twin harnesses over 17 region compositions and FlatStack (clone / clone_from into destinations pre-filled with 0..3 unrelated items, identical further push, then divergence), "
                      "plus two mechanical program-text obligations: every hand-written clone/clone_from mentions every field (or hands the whole value to clone), and src/ contains no shared-state primitive (so independence follows from ownership). "
                      "Deductive part (Verus, unbounded, relative): the 18 hand-written clone / clone_from bodies of nine wrappers return / leave a value equal to the source, assuming the same law for their type parameters and Vec.",
                ref="DESIGN.md §4 C09", note="Trusted: harness oracles; Clone of std types; the CloneLaw contract assumed for type parameters and Vec (std's Clone has no usable Verus spec). If a clone body leaves the dialect the proved part for it is dropped with a NOTE and the bounded tier alone decides.",
                technique="bounded twin harnesses (native exhaustive enumeration) + program-text scans + a small contract-based part (Verus) on the hand-written clone bodies"),
    "C14": dict(level="Bounded (labelled as such): IntoOwned laws (into_owned == pushed, borrow_as round trip, clone_onto onto 5 prior targets, reborrow, region-to-region push) on read items of slice, columns, option, result, "
                      "nested slice regions and Huffman Wrapped items, region-backed and owned-borrowed. "
                      "Deductive part (Verus, unbounded, generic in the parts): IntoOwned for Option<T> and Result<T,E> — into_owned, clone_onto (whatever the target held before, incl. the other variant), borrow_as; and the blanket impl for references (&[T], &str, &T) relative to assumed laws of std's ToOwned / Borrow.",
                ref="DESIGN.md §4 C14", note="Trusted: harness oracles. The IntoOwned bodies are iterator adapters / std calls outside the Verus dialect.",
                technique="bounded harnesses (native exhaustive enumeration)"),
    "C15": dict(level="Bounded (labelled as such), value-complete for the stated sizes natively over a 3-value byte domain: all triples of u8 vectors of length 0..2 in every representation (two regions, owned-borrowed): ==, partial_cmp, cmp "
                      "equal the Vecs'; reflexive, antisymmetric, transitive; Huffman Wrapped raw vs encoded for all pairs of 12 item shapes.",
                ref="DESIGN.md §4 C15", note="Trusted: harness oracles; std's lexicographic iterator comparison is what the crate delegates to.",
                technique="bounded harnesses (native exhaustive enumeration)"),
    "C16": dict(level="Bounded (labelled as such), no deductive part: 17 region compositions and 3 FlatStacks (consecutive pairs over IndexOptimized; MirrorRegion<usize> over IndexOptimized / IndexList with values up to 2^33), "
                      "history of 0..3 pushes, serde_json round trip, 4 further pushes on the original and on the restored copy: same returned indices, same reads at every issued index, same used bytes "
                      "(deduplication and index-compression decisions), restored copy cleared and refilled like a default region. The serde derive output and the format are external / macro-generated: nothing to put under contract.",
                ref="DESIGN.md §4 C16", note="Trusted: harness oracle; serde, serde_derive, serde_json. HuffmanContainer and CodecRegion are not serde-enabled in the crate and are outside the claim.",
                technique="bounded harness (native exhaustive enumeration) — bounded stand-in only; contracts cannot express the property"),
    "C17": dict(level="Bounded (labelled as such). (1) For 8 vector-backed structural regions and FlatStack::merge_capacity, batches of 0..3 items, after reserve_items / reserve_regions (empty or populated target) / merge_regions, "
                      "pushing exactly the announced contents keeps every capacity reported by heap_size constant (targets: empty, one item, or filled until a storage has 0..2 spare bytes); the same for 31 (region, ReserveItems form) pairs incl. announced-by-reference / pushed-owned, strings and tuples announced through an enclosing slice / option / result region, FlatStack::reserve_items fed by a filtered iterator. (2) With a counting global allocator in the native driver: the same regions, n = 2^6 .. 2^14 items — "
                      "without pre-sizing at most storages x (log2(elements)+2) allocator calls; after pre-sizing up to 64 announced items, zero allocator calls while pushing them. "
                      "The logarithmic bound also for 19 further (composition, input form) pairs (arrays, PushIter, &&[T], &&str, columns, consecutive pairs, collapse, FlatStack). "
                      "No contract can express an allocation count, so there is no deductive part; beyond n = 2^14 and beyond the catalogued regions and forms nothing is decided.",
                ref="DESIGN.md §4 C17, §9.6", note="Trusted: harness oracle; capacities as reported by heap_size; allocator calls as seen by a counting #[global_allocator] in the replay binary (native builds only).",
                technique="bounded harnesses (native exhaustive enumeration): capacities via heap_size and allocator-call counting"),
    "C18": dict(level="Bounded (labelled as such): recording-callback harnesses over 13 compositions, tuple regions whose fields own several allocations, Vec<T> regions with elements larger than their alignment, and the three index containers (used <= capacity, number of pairs, sum(used) >= payload + index entries, monotone under push, "
                      "after clear no payload accounted and no capacity shrank — also after 300..4200 pushes; index-container bytes equal the documented rule) plus a mechanical obligation that every storage-bearing field appears in its heap_size body.",
                ref="DESIGN.md §4 C18", note="Trusted: harness oracles. HuffmanContainer::heap_size is todo!() and DictionaryCodec's is empty: outside the catalogue.",
                technique="bounded harnesses (native exhaustive enumeration) + program-text scan"),
}
