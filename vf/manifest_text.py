"""Texts for MANIFEST.json (level claimed, trusted base, technique) per property."""
PENDING = "not claimed yet: the check for this property has not been built in this revision of /verif (see DESIGN.md for the plan)"
NA = {f"C{n:02d}": PENDING for n in range(1, 21)}
NA["C16"] = ("behaviour lives in serde-derive output and an external (de)serialiser; the crate has no function to put under contract and "
             "macro-generated code is outside the verifier's dialect — contract-based verification cannot express or decide it")

TEXT = {
    "C05": dict(
        level="Unbounded deductive proof (Verus) that Stride, IndexList, IndexOptimized and Vec implement exactly the pushed sequence: "
              "per-function contracts over abstract Seq views, including the documented acceptance rule of Stride::push, rejection leaves the state untouched, "
              "and absence of overflow/shift/index/unwrap panics (so checked and wrapping builds agree). Iteration/extend/heap_size are outside the dialect and bounded.",
        ref="DESIGN.md §4 C05",
        note="Trusted: Verus+Z3, vstd specs of Vec/Option/integer conversions, usize=64 bit, derive(Default/Clone/Copy) expansions modelled in the template, "
             "GAT/iterator members dropped by the dialect (listed in evidence). Precondition: fewer than 2^64 stored elements.",
        technique="contract-based deductive verification (Verus) of mechanically extracted functions; native boundary search + replay for counterexamples",
    ),
    "C19": dict(
        level="Unbounded deductive proof (Verus) of the accounting clauses on top of C05: an entry is absorbed by the stride exactly when the documented rule accepts it "
              "(then nothing is spilled), otherwise exactly one entry is appended to the spill list, to the u32 part iff no u64 entry exists yet and the value fits; "
              "lemmas show dense 0,1,2,… and strided sequences are always absorbed.",
        ref="DESIGN.md §4 C19",
        note="Trusted: as C05; the link between the abstract cost (4·|smol| + 8·|chonk|) and the bytes heap_size reports is a bounded Kani harness, not part of the proof.",
        technique="contract-based deductive verification (Verus): accounting postconditions + lemmas over the contracts",
    ),
}
