"""Texts for MANIFEST.json (level claimed, trusted base, technique) per property."""
PENDING = "not claimed yet: the check for this property has not been built in this revision of /verif (see DESIGN.md for the plan)"
NA = {f"C{n:02d}": PENDING for n in range(1, 21)}
NA["C16"] = ("behaviour lives in serde-derive output and an external (de)serialiser; the crate has no function to put under contract and "
             "macro-generated code is outside the verifier's dialect — contract-based verification cannot express or decide it")


_T = "contract-based deductive verification (Verus) of functions extracted mechanically from /repo/src on every run"
_NOTE = ("Trusted: Verus+Z3 and vstd's std specs; usize=64 bit; GAT lifetimes erased (D1) so borrow checking stays rustc's job; "
         "assumed contract of from_utf8_unchecked; axiom 'Clone returns an equal value'; derive(Default) expansions modelled; "
         "impl headers replaced by contract-carrying bounds; members outside the dialect (closures, iterator adapters, macros, FnMut history) are "
         "dropped from the proof and listed in the evidence. Precondition of every push: fewer than 2^64 stored entries.")

TEXT = {
    "C01": dict(level="Unbounded deductive proof that for OwnedRegion, StringRegion, Vec, MirrorRegion, ResultRegion and — generically in their type parameters — "
                      "CollapseSequence, ConsecutiveIndexPairs, FlatStack, the index returned by push reads back the pushed abstract value (Push/Region trait contracts), and that "
                      "ReadSlice/ReadColumns accessors describe exactly that item. Generic proofs cover every composition of regions satisfying the contracts. "
                      "Push forms with closures (SliceRegion, OptionRegion, ColumnsRegion, tuples) and the codecs are outside the dialect.",
                ref="DESIGN.md §4 C01", note=_NOTE, technique=_T + "; round trip as a lemma over push/index contracts"),
    "C02": dict(level="Unbounded proof of the frame clause of every push contract (all previously issued indices stay issued and keep their value) and of the whole-view "
                      "append postconditions of Stride/IndexList/IndexOptimized/Vec (covering stride→spill and u32→u64 switches); lemma_frame_star extends it to arbitrary histories.",
                ref="DESIGN.md §4 C02", note=_NOTE, technique=_T + "; frame postconditions + induction lemma over histories"),
    "C03": dict(level="Unbounded proof of FlatStack::{default,with_capacity,copy,get,len,is_empty,reserve,clear} against an abstract sequence view, generic over every region and "
                      "every index container that satisfies the trait contracts (proved for Vec, IndexList, IndexOptimized); get proved fail-stop in a second reading. "
                      "extend/from_iter/iterators are outside the dialect.",
                ref="DESIGN.md §4 C03", note=_NOTE + " Fail-stop reading trusts the D7 models of panic and bounds checks.", technique=_T + " in a total and a fail-stop reading"),
    "C04": dict(level="Unbounded proof that the single unsafe call (from_utf8_unchecked) has its safety precondition valid_utf8 discharged from StringRegion's invariant for every "
                      "inner byte region, that all four accepted push forms store exactly encode_utf8 of the string, and that the wrappers (CollapseSequence, ConsecutiveIndexPairs, "
                      "FlatStack) only pass issued indices down; plus a mechanical scan that `unsafe` occurs once and no other write path into StringRegion exists.",
                ref="DESIGN.md §4 C04", note=_NOTE + " Serialisation (C16) is not covered.", technique=_T + "; unsafe precondition as proof obligation; program-text scan for write paths"),
    "C05": dict(level="Unbounded deductive proof (Verus) that Stride, IndexList, IndexOptimized and Vec implement exactly the pushed sequence: per-function contracts over abstract Seq views, "
                      "the documented acceptance rule of Stride::push, rejection leaves the state untouched, and absence of overflow/shift/index/unwrap panics (so checked and "
                      "wrapping builds agree). Iteration/extend/heap_size are outside the dialect.",
                ref="DESIGN.md §4 C05", note=_NOTE, technique=_T + "; native boundary search + replay for counterexamples"),
    "C08": dict(level="Unbounded proof that clear() and default() both establish `fresh` (content and bookkeeping equal to the initial state, capacity not included) for the index "
                      "containers, OwnedRegion, StringRegion, Vec, ResultRegion, SliceRegion, CollapseSequence (last_index == None), ConsecutiveIndexPairs (offsets == [0]) and FlatStack; "
                      "push contracts determine index and new abstract state from the old abstract state and the item only.",
                ref="DESIGN.md §4 C08", note=_NOTE, technique=_T + "; `fresh` postconditions on clear/default"),
    "C10": dict(level="Unbounded proof that reserve/with_capacity of Vec, IndexList, IndexOptimized and FlatStack::{reserve,with_capacity} leave the abstract view unchanged (resp. empty, fresh). "
                      "Region-level reserve_* / merge_* bodies (iterator adapters) are outside the dialect.",
                ref="DESIGN.md §4 C10", note=_NOTE, technique=_T),
    "C11": dict(level="Unbounded proof, generic in the inner region and item type, that CollapseSequence::push returns the previous index and leaves the inner region untouched exactly when "
                      "last_index is Some(l) and the item equals the item at l, otherwise stores the item and remembers its index; clear/default forget the last index.",
                ref="DESIGN.md §4 C11", note=_NOTE + " merge_regions / clone boundaries are outside the dialect.", technique=_T + " using vstd's PartialEqSpec as equality oracle"),
    "C12": dict(level="Unbounded proof, generic in the dense inner region and the offset container, that ConsecutiveIndexPairs::push returns exactly the number of items pushed since "
                      "default/clear, appends one offset, keeps the invariant (offsets start at 0, adjacent pairs are the inner indices), and index(k) reads the k-th item; "
                      "ColumnsRegion::index returns a row read item with exactly row k's length and cells. Columns push forms are outside the dialect.",
                ref="DESIGN.md §4 C12", note=_NOTE, technique=_T + "; debug_assert read as 'can never fire' (D6)"),
    "C13": dict(level="Unbounded proof of ReadSliceInner/ReadSlice/ReadColumnsInner/ReadColumns::{get,len,is_empty} and FlatStack::get in two readings of the same bodies: "
                      "total (i < len ⇒ no panic and the i-th element of this item) and fail-stop (normal return ⇒ i < len), down to Vec/IndexList/IndexOptimized indexing.",
                ref="DESIGN.md §4 C13", note=_NOTE + " Fail-stop reading trusts the D7 models of panic and bounds checks.", technique=_T + " in a total and a fail-stop reading; native search + replay for counterexamples"),
    "C19": dict(level="Unbounded proof of the accounting clauses on top of C05 (absorbed by the stride iff the documented rule accepts; otherwise exactly one entry spilled, 4 bytes while "
                      "values fit u32 and no u64 entry exists, 8 bytes after) and of ConsecutiveIndexPairs' dense outward indices; lemmas show dense and strided sequences are always absorbed.",
                ref="DESIGN.md §4 C19", note=_NOTE + " The link between abstract cost and the bytes heap_size reports is not part of the proof.", technique=_T + "; accounting postconditions + lemmas"),
    "C20": dict(level="Unbounded proof that each forwarding Push impl (OwnedRegion: &[T;N], &&[T;N], &&[T], Vec<T>, &Vec<T>; StringRegion: String, &String, &&str; MirrorRegion/Vec: &T, &&T; "
                      "ResultRegion: &Result) satisfies the canonical form's contract with an equal abstract value: same index, same stored content, same reads.",
                ref="DESIGN.md §4 C20", note=_NOTE + " Forms with their own closure/iterator code path are outside the dialect.", technique=_T),
}
