"""Per-property configuration: which worlds / harnesses / scans decide it."""

COMMON_TRUSTED = [
    "Verus 0.2026.09.13 + Z3 and vstd's specifications of Vec, slices, Option/Result, integer conversions (checked_mul, try_into)",
    "usize is 64 bits (`global size_of usize == 8`), the only target the baseline runs on",
    "dialect rule D1 (GAT lifetimes erased): borrow checking and coherence are rustc's job on the real crate",
    "`#[derive(Default)]`/`#[derive(Clone, Copy)]` expansions are modelled in the template (field-wise default / bitwise copy)",
    "fewer than 2^64 elements are ever stored in one container (precondition `len < usize::MAX` of every push)",
]

INDEX_DROPPED = [
    "index.rs: iter()/Iter<'a> GAT of IndexList / IndexOptimized / Vec (iterator adapters with closures) — bounded tier",
    "index.rs: extend() (generic IntoIterator loop) — bounded tier",
    "index.rs: heap_size (FnMut call history not observable in a postcondition) — bounded tier",
    "storage.rs: merge_regions / reserve_regions defaults (iterator adapters) — bounded tier",
]


REGION_DROPPED = [
    "Region::merge_regions / reserve_regions / heap_size / reborrow, ReserveItems::reserve_items (iterator adapters, FnMut history) — bounded tier",
    "SliceRegion / OptionRegion / ColumnsRegion / tuple-region push forms (closures over &mut, zip/map, macro-generated) — bounded tier",
    "iterators (ReadSliceIter, ReadColumnsIter, FlatStack::iter), Extend / FromIterator — bounded tier",
    "IntoOwned bodies (to_owned / clone_into / iterator adapters) — bounded tier; modelled as external_body in the world",
    "impl headers (trait bounds) are replaced by the contract-carrying bounds of the world (Dense, ByteRegion, BytePush, CollapseEq)",
    "OwnedRegion's storage parameter is instantiated S := Vec<T> (rule D8)",
]

REGION_TRUSTED = COMMON_TRUSTED + [
    "assumed contract of core::str::from_utf8_unchecked: requires valid_utf8(bytes), ensures encode_utf8(result) == bytes (its documented safety contract)",
    "axiom: Clone::clone of an element returns an equal value (what 'element-for-element equal' presupposes)",
    "CollapseEq law: the PartialEq<ReadItem> used by CollapseSequence is a function of the read item's abstract value and equal items have equal values",
    "vstd's UTF-8 theory (encode_utf8 / valid_utf8 lemmas) and its spec of str::as_bytes / String::as_str",
]

FAILSTOP_TRUSTED = [
    "D7 models (external_body): diverge() never returns; checked_index_ref / checked_index_vec return only for in-bounds positions (Rust's panic and bounds-check semantics)",
]


def _p(level, worlds, explanation, kani=(), scans=(), drivers=(), trusted=None, dropped=None, assumptions=()):
    return dict(level=level, worlds=list(worlds), kani=list(kani), scans=list(scans), drivers=list(drivers),
                trusted=list(trusted if trusted is not None else REGION_TRUSTED), dropped=list(dropped if dropped is not None else REGION_DROPPED),
                explanation=explanation, assumptions=list(assumptions))


PROPS = {
    "C01": _p("proof", ["regions"],
              "push/index contracts (rd(push(x)) == val(x)) proved per region and generically for wrappers; accessors of read items proved exact."),
    "C02": _p("proof", ["regions", "index"],
              "frame clause of every push contract (all previously issued indices keep their value) plus whole-view append postconditions of the index containers; lemma_frame_star lifts it to histories.",
              dropped=REGION_DROPPED + INDEX_DROPPED),
    "C03": _p("proof", ["regions", "regions+failstop", "index", "index+failstop"],
              "FlatStack::{default,with_capacity,copy,get,len,is_empty,reserve,clear} proved against an abstract Seq view for every region R and index container S satisfying the trait contracts; get is fail-stop.",
              trusted=REGION_TRUSTED + FAILSTOP_TRUSTED, dropped=REGION_DROPPED + INDEX_DROPPED),
    "C04": _p("proof", ["regions"],
              "the unsafe call's safety precondition valid_utf8 is discharged from StringRegion's `issued` predicate; every accepted push form establishes it; wrappers only hand the inner region indices it issued.",
              scans=["string_write_paths_closed"]),
    "C05": _p("proof", ["index"],
              "Stride/IndexList/IndexOptimized/Vec containers proved against abstract sequence views for all inputs, including overflow-freedom (identical behaviour in checked and wrapping builds).",
              trusted=COMMON_TRUSTED, dropped=INDEX_DROPPED),
    "C08": _p("proof", ["regions", "index"],
              "clear() and default() both establish `fresh` (content and bookkeeping equal to the initial ones; capacity is not part of the abstract state).",
              dropped=REGION_DROPPED + INDEX_DROPPED),
    "C10": _p("proof", ["regions", "index"],
              "reserve / with_capacity of the index containers and of FlatStack leave the abstract view unchanged / empty.",
              dropped=REGION_DROPPED + INDEX_DROPPED),
    "C11": _p("proof", ["regions"],
              "CollapseSequence::push collapses exactly when the last index is Some(l) and the item equals the item at l (then the inner region is untouched); clear/default forget the last index."),
    "C12": _p("proof", ["regions"],
              "ConsecutiveIndexPairs returns 0,1,2,... (r == number of items so far) and index(k) reads the k-th pair of adjacent offsets, for every dense inner region and offset container; ColumnsRegion::index returns exactly row k."),
    "C13": _p("proof", ["regions", "regions+failstop", "index+failstop"],
              "positional accessors proved in two readings of the same bodies: total (i < len: no panic, i-th element of this item) and fail-stop (returns only for i < len).",
              trusted=REGION_TRUSTED + FAILSTOP_TRUSTED, dropped=REGION_DROPPED + INDEX_DROPPED),
    "C19": _p("proof", ["index", "regions"],
              "accounting clauses: an entry is absorbed by the stride exactly when the documented rule accepts it, otherwise one entry is spilled (4 bytes while values fit u32, 8 after); dense outward indices (C12) are always absorbed.",
              dropped=REGION_DROPPED + INDEX_DROPPED),
    "C20": _p("proof", ["regions"],
              "every forwarding Push impl is proved against the same contract as the canonical form with an equal abstract value (same index, same stored bytes, same reads)."),
}

# obligation prefix -> native counterexample harness (vk crate)
CEX = {
    "index.Stride::push#": "stride_push_contract",
    "index.Stride::index#": "stride_index_contract",
    "slice.ReadSliceInner::get": "slice_get_oob",
    "slice.ReadSlice::get": "slice_get_oob",
}


def cex_for(obligation):
    for k, h in CEX.items():
        if obligation.startswith(k):
            return h
    return None
