"""Per-property configuration: which worlds / harnesses / scans decide it."""

COMMON_TRUSTED = [
    "Verus 0.2026.09.13 + Z3 and vstd's specifications of Vec, slices, Option/Result, integer conversions (checked_mul, try_into)",
    "usize is 64 bits (`global size_of usize == 8`), the only target the baseline runs on",
    "dialect rule D1 (GAT lifetimes erased): borrow checking and coherence are rustc's job on the real crate",
    "`#[derive(Default)]`/`#[derive(Clone, Copy)]` expansions are modelled in the template (field-wise default / bitwise copy)",
    "fewer than 2^64 elements are ever stored in one container (precondition `len < usize::MAX` of every push)",
]

INDEX_DROPPED = [
    "index.rs: iter()/Iter<'a> GAT of IndexList / IndexOptimized / Vec (iterator adapters with closures) — bounded tier",
    "index.rs: extend() (generic IntoIterator loop) — bounded tier",
    "index.rs: heap_size (FnMut call history not observable in a postcondition) — bounded tier",
    "storage.rs: merge_regions / reserve_regions defaults (iterator adapters) — bounded tier",
]

PROPS = {
    "C05": dict(
        level="proof",
        worlds=["index"],
        kani=[],
        trusted=COMMON_TRUSTED,
        dropped=INDEX_DROPPED,
        explanation="Stride/IndexList/IndexOptimized/Vec containers proved against abstract sequence views for all inputs, "
                    "including overflow-freedom (identical behaviour in checked and wrapping builds).",
    ),
    "C19": dict(
        level="proof",
        worlds=["index"],
        kani=[],
        trusted=COMMON_TRUSTED,
        dropped=INDEX_DROPPED,
        explanation="Accounting invariants over the C05 contracts: which entries are absorbed by the stride, which cost 4 and which 8 bytes.",
    ),
}

# obligation prefix -> native counterexample harness (vk crate)
CEX = {
    "index.Stride::push#": "stride_push_contract",
    "index.Stride::index#": "stride_index_contract",
}


def cex_for(obligation):
    for k, h in CEX.items():
        if obligation.startswith(k):
            return h
    return None
