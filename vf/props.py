"""Per-property configuration: which worlds / harnesses / scans decide it."""

COMMON_TRUSTED = [
    "Verus 0.2026.09.13 + Z3 and vstd's specifications of Vec, slices, Option/Result, integer conversions (checked_mul, try_into)",
    "usize is 64 bits (`global size_of usize == 8`), the only target the baseline runs on",
    "dialect rule D1 (GAT lifetimes erased): borrow checking and coherence are rustc's job on the real crate",
    "`#[derive(Default)]`/`#[derive(Clone, Copy)]` expansions are modelled in the template (field-wise default / bitwise copy)",
    "fewer than 2^64 elements are ever stored in one container (precondition `len < usize::MAX` of every push)",
]

INDEX_DROPPED = [
    "index.rs: iter()/Iter<'a> GAT of IndexList / IndexOptimized / Vec (iterator adapters with closures) — bounded tier",
    "index.rs: extend() (generic IntoIterator loop) — bounded tier",
    "index.rs: heap_size (FnMut call history not observable in a postcondition) — bounded tier",
    "storage.rs: merge_regions / reserve_regions defaults (iterator adapters) — bounded tier",
]


REGION_DROPPED = [
    "Region::merge_regions / reserve_regions / heap_size / reborrow, ReserveItems::reserve_items (iterator adapters, FnMut history) — bounded tier",
    "SliceRegion / OptionRegion / ColumnsRegion / tuple-region push forms (closures over &mut, zip/map, macro-generated) — bounded tier",
    "iterators (ReadSliceIter, ReadColumnsIter, FlatStack::iter), Extend / FromIterator — bounded tier",
    "IntoOwned bodies (to_owned / clone_into / iterator adapters) — bounded tier; modelled as external_body in the world",
    "impl headers (trait bounds) are replaced by the contract-carrying bounds of the world (Dense, ByteRegion, BytePush, CollapseEq)",
    "OwnedRegion's storage parameter is instantiated S := Vec<T> (rule D8)",
]

REGION_TRUSTED = COMMON_TRUSTED + [
    "assumed contract of core::str::from_utf8_unchecked: requires valid_utf8(bytes), ensures encode_utf8(result) == bytes (its documented safety contract)",
    "axiom: Clone::clone of an element returns an equal value (what 'element-for-element equal' presupposes)",
    "CollapseEq law: the PartialEq<ReadItem> used by CollapseSequence is a function of the read item's abstract value and equal items have equal values",
    "vstd's UTF-8 theory (encode_utf8 / valid_utf8 lemmas) and its spec of str::as_bytes / String::as_str",
]

FAILSTOP_TRUSTED = [
    "D7 models (external_body): diverge() never returns; checked_index_ref / checked_index_vec return only for in-bounds positions (Rust's panic and bounds-check semantics)",
]


def _p(level, worlds, explanation, kani=(), scans=(), drivers=(), trusted=None, dropped=None, assumptions=()):
    return dict(level=level, worlds=list(worlds), kani=list(kani), scans=list(scans), drivers=list(drivers),
                trusted=list(trusted if trusted is not None else REGION_TRUSTED), dropped=list(dropped if dropped is not None else REGION_DROPPED),
                explanation=explanation, assumptions=list(assumptions))


PROPS = {
    "C01": _p("proof", ["regions", "index"],
              "push/index contracts (rd(push(x)) == val(x)) proved per region and generically for wrappers; accessors of read items proved exact."),
    "C02": _p("proof", ["regions", "index"],
              "frame clause of every push contract (all previously issued indices keep their value) plus whole-view append postconditions of the index containers; lemma_frame_star lifts it to histories.",
              dropped=REGION_DROPPED + INDEX_DROPPED),
    "C03": _p("proof", ["regions", "regions+failstop", "index", "index+failstop"],
              "FlatStack::{default,with_capacity,copy,get,len,is_empty,reserve,clear} proved against an abstract Seq view for every region R and index container S satisfying the trait contracts; get is fail-stop.",
              trusted=REGION_TRUSTED + FAILSTOP_TRUSTED, dropped=REGION_DROPPED + INDEX_DROPPED),
    "C04": _p("proof", ["regions", "index"],
              "the unsafe call's safety precondition valid_utf8 is discharged from StringRegion's `issued` predicate; every accepted push form establishes it; wrappers only hand the inner region indices it issued.",
              scans=["string_write_paths_closed"]),
    "C05": _p("proof", ["index"],
              "Stride/IndexList/IndexOptimized/Vec containers proved against abstract sequence views for all inputs, including overflow-freedom (identical behaviour in checked and wrapping builds).",
              trusted=COMMON_TRUSTED, dropped=INDEX_DROPPED),
    "C08": _p("proof", ["regions", "index"],
              "clear() and default() both establish `fresh` (content and bookkeeping equal to the initial ones; capacity is not part of the abstract state).",
              dropped=REGION_DROPPED + INDEX_DROPPED),
    "C10": _p("proof", ["regions", "index"],
              "reserve / with_capacity of the index containers and of FlatStack leave the abstract view unchanged / empty.",
              dropped=REGION_DROPPED + INDEX_DROPPED),
    "C11": _p("proof", ["regions"],
              "CollapseSequence::push collapses exactly when the last index is Some(l) and the item equals the item at l (then the inner region is untouched); clear/default forget the last index."),
    "C12": _p("proof", ["regions", "index"],
              "ConsecutiveIndexPairs returns 0,1,2,... (r == number of items so far) and index(k) reads the k-th pair of adjacent offsets, for every dense inner region and offset container; ColumnsRegion::index returns exactly row k."),
    "C13": _p("proof", ["regions", "regions+failstop", "index", "index+failstop"],
              "positional accessors proved in two readings of the same bodies: total (i < len: no panic, i-th element of this item) and fail-stop (returns only for i < len).",
              trusted=REGION_TRUSTED + FAILSTOP_TRUSTED, dropped=REGION_DROPPED + INDEX_DROPPED),
    "C19": _p("proof", ["index", "regions"],
              "accounting clauses: an entry is absorbed by the stride exactly when the documented rule accepts it, otherwise one entry is spilled (4 bytes while values fit u32, 8 after); dense outward indices (C12) are always absorbed.",
              dropped=REGION_DROPPED + INDEX_DROPPED),
    "C20": _p("proof", ["regions"],
              "every forwarding Push impl is proved against the same contract as the canonical form with an equal abstract value (same index, same stored bytes, same reads).",
              scans=["push_forms_catalogued"]),
}

BOUNDED_TRUSTED = [
    "rustc's semantics of the native build (debug and release profiles) for the enumeration; Kani 0.68 / CBMC 6.11 for the symbolic harnesses",
    "the harness bodies in /verif/kani/src (oracles written from the property statements)",
]

PROPS.update({
    "C06": _p("model_checking", ["codecs"], "bounded-exhaustive native driver over frequency profiles x item shapes x merge generations; BitIterator/Decoder/Encoder are exercised through the public API only.",
              trusted=BOUNDED_TRUSTED, dropped=["HuffmanContainer is built on BTreeMap/BinaryHeap, which neither Verus (no spec) nor Kani (intractable) can execute; no function of it is under a deductive contract"]),
    "C07": _p("model_checking", ["codecs"], "bounded-exhaustive native driver over training sets x probe strings x merge generations x clear.",
              trusted=BOUNDED_TRUSTED, dropped=["DictionaryCodec is built on BTreeMap and a heavy-hitter summary; no function of it is under a deductive contract"]),
    "C09": _p("model_checking", ["clone"], "twin harnesses (clone / clone_from, then divergence) over 17 compositions + FlatStack, and two program-text obligations (field completeness, no shared-state primitives); small proved part: the hand-written clone / clone_from of nine wrappers yield a value equal to the source, relative to the assumed law for their type parameters and Vec.",
              scans=["clone_field_complete", "no_shared_state"],
              trusted=BOUNDED_TRUSTED + ["clone world: `CloneLaw` (clone / clone_from of every type parameter and of Vec<T> return / leave a value equal to the source) is ASSUMED for the parts and proved for the wrapper; std's Clone carries no usable Verus specification, so the law replaces the `Clone` bound in the impl headers"],
              dropped=["the derived Clone impls (index containers, MirrorRegion, tuple regions, codec regions) are macro output: not under contract", "HuffmanContainer / CodecRegion clone_from (BTreeMap state): bounded tier only", "independence of the two copies after cloning is an ownership fact (scan no_shared_state) plus the twin harnesses, not a postcondition"]),
    "C14": _p("model_checking", ["regions", "owned"], "IntoOwned laws on read items of slice / columns / option / result / nested-slice regions and Huffman Wrapped items, both representations, five prior clone_onto targets.",
              trusted=BOUNDED_TRUSTED + ["owned world: the laws of std's ToOwned (to_owned returns / clone_into leaves an owned form of the value) and Borrow are ASSUMED for every T (world traits of the same names); the blanket `impl IntoOwned for &T` of src/lib.rs is proved against them"],
              dropped=["IntoOwned bodies of ReadSlice / ReadColumns / tuples are iterator adapters or macro output outside the Verus dialect — bounded tier"]),
    "C15": _p("model_checking", [], "==, partial_cmp, cmp of read items against the owned vectors for all triples of short vectors in every representation; Wrapped raw versus encoded.",
              trusted=BOUNDED_TRUSTED, dropped=["ReadSlice comparisons delegate to std's iterator comparison, which Verus cannot read"]),
    "C16": _p("model_checking", [], "serde_json round trip of 17 region compositions and 3 FlatStacks at an arbitrary point of a short history; original and restored copy driven through the same continuation: same indices, reads, used bytes.",
              trusted=BOUNDED_TRUSTED + ["serde / serde_derive / serde_json (external crates): the derive output and the text format are exercised, not verified"],
              dropped=["serde derive output is macro-generated code outside the Verus dialect and the (de)serialiser is an external crate: there is no function of the crate to put under contract, so C16 has no deductive part — bounded stand-in only"]),
    "C17": _p("model_checking", [], "after reserve_items / reserve_regions / merge_regions / merge_capacity, pushing exactly the announced contents leaves every capacity reported by heap_size unchanged and calls the allocator zero times; without pre-sizing n = 2^6..2^14 pushes cost O(log n) allocator calls per storage (counting global allocator).",
              trusted=BOUNDED_TRUSTED, dropped=["allocation counts are whole-history resource properties of std::Vec's growth policy: no contract here can express them, so C17 has no deductive part; the bounded driver counts allocator calls up to n = 2^14"]),
    "C18": _p("model_checking", [], "heap_size accounting over 12 compositions and the index containers with a recording callback, plus a program-text obligation that every storage field is forwarded.",
              scans=["heap_size_forwards_all"], trusted=BOUNDED_TRUSTED, dropped=["the call history of an FnMut callback is not observable in a Verus postcondition"]),
})

for _pid in ("C13",):
    PROPS[_pid]["kani_quick"] = ["slice_get_oob", "slice_get_owned_oob"]

# obligation prefix -> native counterexample harness (vk crate)
CEX = {
    "index.Stride::push#": "stride_push_contract",
    "index.Stride::index#": "stride_index_contract",
    "slice.ReadSliceInner::get": "slice_get_oob",
    "slice.ReadSlice::get": "slice_get_oob",
    "index.IndexList": "index_containers",
    "index.IndexOptimized": "index_containers",
    "index.Vec": "index_containers",
    "storage.Vec": "index_containers",
    "lib.FlatStack": "flatstack_sequence",
    "deduplicate.CollapseSequence": "collapse_boundaries",
    "deduplicate.ConsecutiveIndexPairs": "string_compositions",
    "string.StringRegion": "string_compositions",
    "slice_owned.OwnedRegion": "clear_twin",
    "columns.": "columns_ragged",
    "result.ResultRegion": "fanout_roundtrip",
    "slice.SliceRegion": "slice_roundtrip",
    "huffman.BitIterator": "huffman_quick",
    "codec.": "dictionary_quick",
    "option.Option.IntoOwned": "into_owned_laws",
    "result.Result.IntoOwned": "into_owned_laws",
}


# Obligations whose proof rests on bit-vector reasoning: an equivalent rewrite of the masks / shifts (`u8::MAX >> (8 - n)`
# for `((1u16 << n) - 1) as u8`) can make Verus fail although the function is unchanged in behaviour.  For these a failed
# proof becomes a VIOLATION only together with a failing input found by the associated native harness (rule D17);
# without one it is undecided.
FRAGILE = (
    "huffman.BitIterator::next#ensures.chunk_bits",
    "huffman.BitIterator::next#safety.shift",
)


def cex_for(obligation):
    for k, h in CEX.items():
        if obligation.startswith(k):
            return h
    return None
