"""Mechanical program-text obligations (run on every check that lists them)."""
import glob
import os
import re
import sys

sys.path.insert(0, os.path.dirname(os.path.abspath(__file__)))
from extract import SourceFile, ExtractError, lex, code_tokens, _impl_type_params  # noqa: E402


def _src_files(repo):
    return sorted(glob.glob(os.path.join(repo, "src", "**", "*.rs"), recursive=True))


def _unsafe_sites(repo):
    """(file, enclosing fn name, enclosing impl header) of every `unsafe` token outside comments/strings and test modules."""
    out = []
    for path in _src_files(repo):
        rel = os.path.relpath(path, repo)
        sf = SourceFile(path, rel)
        toks = [t for t in code_tokens(lex(sf.src)) if t.kind == "ident" and t.text == "unsafe"]
        for t in toks:
            where = None
            skip = False
            for it in sf.walk(skip_test_mods=False):
                if it.kind == "mod" and "cfg(test)" in sf.src[it.attr_start:it.start] and it.start <= t.start < it.end:
                    skip = True
                if it.kind == "impl" and it.start <= t.start < it.end:
                    for c in it.children:
                        if c.kind == "fn" and c.start <= t.start < c.end:
                            where = (rel, c.name, it.name)
                    if where is None:
                        where = (rel, None, it.name)
                elif it.kind == "fn" and it.start <= t.start < it.end and where is None:
                    where = (rel, it.name, None)
            if not skip:
                out.append(where or (rel, None, None))
    return out


ACCEPTED_STRING_FORMS = {"String", "& String", "& str", "& & str"}


def string_write_paths_closed(repo):
    """C04, "by construction" half:
    (a) `unsafe` occurs exactly once under src/, inside `StringRegion::index` (the function under contract);
    (b) every `impl Push<X> for StringRegion<..>` takes a string type X in {String, &String, &str, &&str};
    (c) no function of string.rs other than those four `push` bodies feeds bytes to the inner region
        (`self.inner.push` / `push_storage`), and the `inner` field is private."""
    problems = []
    checked = 0
    sites = _unsafe_sites(repo)
    checked += len(sites)
    good = [s for s in sites if s[0] == os.path.join("src", "impls", "string.rs") and s[1] == "index" and s[2] and "Region for StringRegion" in s[2]]
    if len(sites) != 1 or len(good) != 1:
        problems.append(f"`unsafe` sites under src/: {sites} (expected exactly one, in StringRegion::index)")
    sf = SourceFile(os.path.join(repo, "src", "impls", "string.rs"), "src/impls/string.rs")
    for it in sf.walk():
        if it.kind != "impl":
            continue
        m = re.search(r"\bPush < (.*) > for StringRegion <", it.name)
        if m:
            checked += 1
            form = m.group(1).strip()
            form = re.sub(r"'[a-z_]+ ", "", form)
            if form not in ACCEPTED_STRING_FORMS:
                problems.append(f"string.rs: `impl Push<{form}> for StringRegion` accepts a non-string input form")
        if "StringRegion" in it.name:
            for c in it.children:
                if c.kind != "fn":
                    continue
                checked += 1
                body = sf.src[c.head_end:c.end]
                feeds = re.search(r"self\s*\.\s*inner\s*\.\s*push\s*\(|push_storage|&\s*mut\s+self\s*\.\s*inner", body)
                is_push_impl = bool(m) and c.name == "push"
                if feeds and not is_push_impl:
                    problems.append(f"string.rs: fn {c.name} in `{it.name[:60]}` writes to the inner byte region outside the contracted push paths")
    st = sf.item("struct", "StringRegion")
    if re.search(r"\bpub(\s*\([^)]*\))?\s+inner\s*:", st.text):
        problems.append("string.rs: field `inner` of StringRegion is not private")
    checked += 1
    if problems:
        return dict(status="violation", checked=checked, detail="; ".join(problems))
    return dict(status="ok", checked=checked, detail=f"1 unsafe site (StringRegion::index); {checked} items inspected")


def no_shared_state(repo):
    """C09: independence of clones follows from ownership if src/ uses no shared-mutability or aliasing primitives."""
    bad = []
    n = 0
    for path in _src_files(repo):
        rel = os.path.relpath(path, repo)
        src = open(path).read()
        toks = code_tokens(lex(src))
        n += len(toks)
        for i, t in enumerate(toks):
            if t.kind == "ident" and t.text in ("Rc", "Arc", "Cell", "RefCell", "UnsafeCell", "Mutex", "RwLock", "AtomicUsize"):
                bad.append(f"{rel}: {t.text}")
            if t.kind == "ident" and t.text == "static" and i + 1 < len(toks) and toks[i + 1].text == "mut":
                bad.append(f"{rel}: static mut")
            if t.text == "*" and i + 1 < len(toks) and toks[i + 1].text in ("const", "mut") and i > 0 and toks[i - 1].text in (":", "<", "(", ",", "->", "as"):
                bad.append(f"{rel}: raw pointer type")
    if bad:
        return dict(status="violation", checked=n, detail="shared-state primitives in src/: " + ", ".join(sorted(set(bad))))
    return dict(status="ok", checked=n, detail=f"{n} tokens scanned, no Rc/Arc/Cell/RefCell/raw pointer/static mut")


def _struct_fields(sf, name):
    st = sf.item("struct", name)
    body = st.text[st.text.index("{") + 1:st.text.rindex("}")]
    return re.findall(r"^\s*(?:pub\s+)?([a-z_][a-z0-9_]*)\s*:", body, flags=re.M)


CLONE_TARGETS = [
    ("src/lib.rs", "FlatStack"), ("src/impls/slice.rs", "SliceRegion"), ("src/impls/slice_owned.rs", "OwnedRegion"),
    ("src/impls/string.rs", "StringRegion"), ("src/impls/option.rs", "OptionRegion"), ("src/impls/result.rs", "ResultRegion"),
    ("src/impls/columns.rs", "ColumnsRegion"), ("src/impls/deduplicate.rs", "CollapseSequence"),
    ("src/impls/deduplicate.rs", "ConsecutiveIndexPairs"), ("src/impls/codec.rs", "CodecRegion"),
    ("src/impls/huffman_container.rs", "HuffmanContainer"),
]


def clone_field_complete(repo):
    """C09: every hand-written clone / clone_from mentions every (non-marker) field of its struct."""
    problems, n = [], 0
    for rel, name in CLONE_TARGETS:
        sf = SourceFile(os.path.join(repo, rel), rel)
        fields = [f for f in _struct_fields(sf, name) if not f.startswith("_")]
        impls = [it for it in sf.walk() if it.kind == "impl" and re.search(r"\bClone for " + name + r"\b", it.name)]
        if len(impls) != 1:
            return dict(status="undecided", checked=n, detail=f"{rel}: Clone impl for {name} matched {len(impls)} blocks")
        for c in impls[0].children:
            if c.kind == "fn" and c.name in ("clone", "clone_from"):
                body = sf.src[c.head_end:c.end]
                # a clone_from that replaces the whole value by a clone of the source (`*self = source.clone()`,
                # `Clone::clone(source)`, `source.clone_into(self)`) delegates to `clone`, whose own body is examined
                if c.name == "clone_from" and re.search(r"\bsource\s*\.\s*clone\s*\(\s*\)|\bClone\s*::\s*clone\s*\(\s*source\s*\)|\bsource\s*\.\s*clone_into\s*\(", body):
                    n += 1
                    continue
                for f in fields:
                    n += 1
                    if not re.search(r"\b" + f + r"\b", body):
                        problems.append(f"{rel}: {name}::{c.name} does not mention field `{f}`")
    if problems:
        return dict(status="violation", checked=n, detail="; ".join(problems))
    return dict(status="ok", checked=n, detail=f"{n} (fn, field) pairs checked")


HEAP_TARGETS = [
    ("src/lib.rs", "FlatStack", ["indices", "region"]), ("src/impls/slice.rs", "SliceRegion", ["slices", "inner"]),
    ("src/impls/slice_owned.rs", "OwnedRegion", ["slices"]), ("src/impls/string.rs", "StringRegion", ["inner"]),
    ("src/impls/option.rs", "OptionRegion", ["inner"]), ("src/impls/result.rs", "ResultRegion", ["oks", "errs"]),
    ("src/impls/columns.rs", "ColumnsRegion", ["indices", "inner"]), ("src/impls/deduplicate.rs", "CollapseSequence", ["inner"]),
    ("src/impls/deduplicate.rs", "ConsecutiveIndexPairs", ["inner", "indices"]),
]


def heap_size_forwards_all(repo):
    """C18: every storage-bearing field of a struct appears in its heap_size body."""
    problems, n = [], 0
    for rel, name, fields in HEAP_TARGETS:
        sf = SourceFile(os.path.join(repo, rel), rel)
        real = _struct_fields(sf, name)
        for f in fields:
            if f not in real:
                return dict(status="undecided", checked=n, detail=f"{rel}: {name} has no field {f} any more (anchor lost)")
        cands = []
        for it in sf.walk():
            if it.kind == "impl" and re.search(r"\b" + name + r"\b", it.name) and "Clone" not in it.name:
                cands += [c for c in it.children if c.kind == "fn" and c.name == "heap_size"]
        if len(cands) != 1:
            return dict(status="undecided", checked=n, detail=f"{rel}: heap_size of {name} matched {len(cands)} fns")
        body = sf.src[cands[0].head_end:cands[0].end]
        for f in real:
            if f.startswith("_") or f == "last_index":
                continue
            n += 1
            if not re.search(r"self\s*\.\s*" + f + r"\b", body):
                problems.append(f"{rel}: {name}::heap_size does not mention field `{f}`")
    if problems:
        return dict(status="violation", checked=n, detail="; ".join(problems))
    return dict(status="ok", checked=n, detail=f"{n} (struct, field) pairs checked")


def _catalogue():
    with open(os.path.join(os.path.dirname(os.path.abspath(__file__)), "push_forms.txt")) as f:
        return {l.strip() for l in f if l.strip()}


def _push_forms(repo):
    forms = set()
    for path in _src_files(repo):
        rel = os.path.relpath(path, repo)
        sf = SourceFile(path, rel)
        for it in sf.walk():
            if it.kind == "impl":
                m = re.search(r"\bPush < (.*) > for ([A-Za-z_0-9]+)", it.name)
                if m:
                    x = re.sub(r"'[a-z_]+ ", "", m.group(1))
                    # a form that is just one of the impl's own type parameters is catalogued under the name `T`
                    # (a renamed type parameter is not a new input form)
                    if x.strip() in _impl_type_params(it.name) and re.fullmatch(r"[A-Z][A-Za-z0-9]*", x.strip()) and f"{rel}: Push<T> for {m.group(2)}" in _catalogue():
                        x = "T"
                    forms.add(f"{rel}: Push<{x}> for {m.group(2)}")
    return forms


def push_forms_catalogued(repo):
    """C20 / C01 completeness guard: every hand-written `impl Push<X> for R` in src/ is in the committed catalogue
    vf/push_forms.txt, i.e. is either under a Verus contract or exercised by a bounded harness.  A form that is not in
    the catalogue is *undecided* (nothing here examines it), never an alarm."""
    have = _push_forms(repo)
    with open(os.path.join(os.path.dirname(os.path.abspath(__file__)), "push_forms.txt")) as f:
        known = {l.strip() for l in f if l.strip()}
    extra = sorted(have - known)
    if extra:
        return dict(status="undecided", checked=len(have), detail="input forms not in the catalogue (neither under contract nor in a harness): " + "; ".join(extra))
    return dict(status="ok", checked=len(have), detail=f"{len(have)} Push impls, all catalogued")


SCANS = {
    "push_forms_catalogued": push_forms_catalogued,
    "string_write_paths_closed": string_write_paths_closed,
    "no_shared_state": no_shared_state,
    "clone_field_complete": clone_field_complete,
    "heap_size_forwards_all": heap_size_forwards_all,
}


def run(name, repo):
    try:
        return SCANS[name](repo)
    except (ExtractError, KeyError, ValueError) as e:
        return dict(status="undecided", checked=0, detail=f"scan {name}: {e}")


if __name__ == "__main__":
    for k in SCANS:
        print(k, run(k, sys.argv[1] if len(sys.argv) > 1 else "/repo"))
