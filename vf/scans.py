"""Mechanical program-text obligations."""


def run(name, repo):
    return dict(status="undecided", checked=0, detail=f"unknown scan {name}")
