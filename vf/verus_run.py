"""Run Verus on a generated world and map its diagnostics back to named obligations."""
import json
import os
import re
import subprocess
import sys
import time

sys.path.insert(0, os.path.dirname(os.path.abspath(__file__)))
import world as worldgen  # noqa: E402
from extract import ExtractError  # noqa: E402

VERIF = os.path.dirname(os.path.dirname(os.path.abspath(__file__)))
BUILD = os.path.join(VERIF, "build", f"p{os.getpid()}")   # per process: concurrent checks must not share generated files

VIOLATION_MSGS = (
    "postcondition not satisfied",
    "precondition not satisfied",
    "precondition not met",          # built-in operations, e.g. "precondition not met: index in bounds for this access"
    "possible arithmetic underflow/overflow",
    "possible bit shift underflow/overflow",
    "possible division by zero",
    "assertion failed",
    "invariant not satisfied",
    "loop invariant not preserved",
    "invariant not preserved",
    "unreachable",
    "decreases not satisfied",
    "recommendation not met",
)


def _verus_cmd(path, rlimit, seed=None, extra=()):
    cmd = ["verus", path, "--no-lifetime", "--no-trait-conflicts", "--output-json", "--error-format=json", "--time",
           "--rlimit", str(rlimit), "--multiple-errors", "8"]
    if seed is not None:
        cmd += ["--smt-option", f"smt.random_seed={seed}"]
    cmd += list(extra)
    return cmd


def _run(cmd, cwd, timeout):
    t0 = time.time()
    try:
        p = subprocess.run(cmd, cwd=cwd, capture_output=True, text=True, timeout=timeout)
    except subprocess.TimeoutExpired:
        return None, "", "", time.time() - t0
    return p.returncode, p.stdout, p.stderr, time.time() - t0


def _parse_diags(stderr):
    diags = []
    for ln in stderr.splitlines():
        ln = ln.strip()
        if not ln.startswith("{"):
            continue
        try:
            d = json.loads(ln)
        except json.JSONDecodeError:
            continue
        if d.get("$message_type") == "diagnostic":
            diags.append(d)
    return diags


def _parse_json_out(stdout):
    k = stdout.find("{")
    if k < 0:
        return {}
    try:
        return json.loads(stdout[k:])
    except json.JSONDecodeError:
        return {}


def classify(diag, meta, world_file):
    """-> dict(kind=violation|undecided|note, fn, obligation, msg, rendered)"""
    msg = diag.get("message", "")
    level = diag.get("level")
    if level != "error":
        return None
    if msg.startswith("aborting due to"):
        return None
    linemap = meta["linemap"]
    spans = [s for s in diag.get("spans", []) if os.path.basename(s["file_name"]) == os.path.basename(world_file)]
    for ch in diag.get("children", []):
        spans += [s for s in ch.get("spans", []) if os.path.basename(s["file_name"]) == os.path.basename(world_file)]

    def info(sp):
        ln = sp["line_start"] - 1
        return linemap[ln] if 0 <= ln < len(linemap) else {}

    out = dict(msg=msg, rendered=diag.get("rendered", ""), fn=None, obligation=None, kind="undecided", canary=None)
    is_violation_msg = any(msg.startswith(m) for m in VIOLATION_MSGS)
    if not is_violation_msg:
        out["reason"] = "diagnostic is not a proof failure (unsupported construct, type error or tool limit)"
        # still try to attribute it
        for sp in spans:
            i = info(sp)
            if i.get("fn"):
                out["fn"] = i["fn"]
                break
        return out
    if "rlimit" in msg.lower() or "resource limit" in msg.lower():
        out["reason"] = "resource limit"
        return out
    # canary?
    for sp in spans:
        i = info(sp)
        if i.get("part") == "canary":
            out.update(kind="canary", canary=i.get("canary"), fn=i.get("fn"))
            return out
    # where is the failing code?  primary span inside an extracted body => that function.
    prim = [sp for sp in spans if sp.get("is_primary")]
    body_fn = None
    for sp in prim + spans:
        i = info(sp)
        if i.get("part") in ("body", "sig") and i.get("fn"):
            body_fn = i["fn"]
            break
    label = None
    callee_clause = None
    for sp in spans:
        i = info(sp)
        lab = (sp.get("label") or "")
        if i.get("part") == "contract" and i.get("fn"):
            if "failed this postcondition" in lab or msg.startswith("postcondition"):
                if body_fn is None or i["fn"] == body_fn:
                    body_fn = body_fn or i["fn"]
                    label = i.get("label") or "ensures"
            elif "failed precondition" in lab or msg.startswith("precondition"):
                callee_clause = f"{i['fn']}#{i.get('label') or 'requires'}"
    if body_fn is None:
        # e.g. an error inside a template lemma, a hand-written impl or a trait law: machinery, not code
        out["reason"] = "failure is not located in an extracted function (template lemma / model code)"
        return out
    out["fn"] = body_fn
    if msg.startswith("postcondition not satisfied"):
        if label is None:
            # postcondition of a trait-level contract (declared in the template's trait)
            text = ""
            for sp in spans:
                if "failed this postcondition" in (sp.get("label") or ""):
                    text = " ".join(t["text"].strip() for t in sp.get("text", []))
            label = "trait:" + re.sub(r"\s+", " ", text)[:80]
        out["obligation"] = f"{body_fn}#ensures.{label}"
    elif msg.startswith("precondition not satisfied"):
        text = ""
        for sp in spans:
            if "failed precondition" in (sp.get("label") or ""):
                text = " ".join(t["text"].strip() for t in sp.get("text", []))
        out["obligation"] = f"{body_fn}#call." + (callee_clause or re.sub(r"\s+", " ", text)[:80] or "precondition")
    else:
        kind = {"possible arithmetic underflow/overflow": "arith", "possible bit shift underflow/overflow": "shift",
                "possible division by zero": "div0", "assertion failed": "assert"}.get(msg, re.sub(r"\W+", "_", msg)[:30])
        if msg.startswith("precondition not met") and "index in bounds" in msg:
            kind = "index"
        src = ""
        for sp in prim:
            src = " ".join(t["text"].strip() for t in sp.get("text", []))
        out["obligation"] = f"{body_fn}#safety.{kind}"
        out["where"] = src[:120]
    out["kind"] = "violation"
    out["label"] = label
    return out


# The trait-level `Push::push` contract has one clause per property.  A failure of one clause is reported under the
# properties that clause states (intersected with the function's own tags), not under every tag of the function:
#   issued(r) / rd(r) =~= val(item)        read-back of the new item  — not the append-only property C02
#   forall old issued ... rd unchanged     append-only                 — not the read-back property C01
#   is_dense() ==> adjacent ranges         index shape                 — neither C01 nor C02 (reads are stated by the other clauses)
_TRAIT_CLAUSE_EXCLUDES = [
    ("old(self).issued(i) ==>", {"C01"}),
    ("final(self).rd(r) =~= Self::val(item)", {"C02"}),
    ("final(self).issued(r)", {"C02"}),
    ("Self::is_dense() ==>", {"C01", "C02"}),
]


def _trait_clause_tags(ob, tags):
    if "#ensures.trait:" not in ob:
        return tags
    text = ob.split("#ensures.trait:", 1)[1]
    for pat, excl in _TRAIT_CLAUSE_EXCLUDES:
        if text.startswith(pat[:len(text)]) or pat in text:
            return [t for t in tags if t not in excl]
    return tags


def run_world(name, repo="/repo", tier="quick", seed=0, timeout=600):
    """Generate + verify world `name` (`<template>` or `<template>+<flag>`, e.g. `regions+failstop`)."""
    base, _, flag = name.partition("+")
    flags = (flag,) if flag else ()
    tmpl = os.path.join(VERIF, "worlds", f"{base}.rs.tmpl")
    tag = f"{base}_{flag}" if flag else base
    os.makedirs(BUILD, exist_ok=True)
    out = os.path.join(BUILD, f"{tag}_world.rs")
    res = dict(world=name, status="undecided", violations=[], undecided=[], obligations=[], functions=[], canaries={},
               trusted=[], verus={}, reason=None)
    external = set()
    try:
        meta = worldgen.build(tmpl, repo, out, flags=flags)
        # Graceful degradation: a function whose body contains a construct outside the dialect (reported by Verus as a
        # non-proof diagnostic located in that function) is re-emitted as `external_body` — undecided for the properties
        # it carries, while every other function of the world is still verified against its contract.
        for _ in range(4):
            probe_cmd = _verus_cmd(os.path.basename(out), 10, None, ["--no-verify"])
            rc0, so0, se0, _w = _run(probe_cmd, BUILD, timeout)
            bad = set()
            for d in _parse_diags(se0 or ""):
                c = classify(d, meta, out)
                if c and c["kind"] == "undecided" and c.get("fn") and not any(d.get("message", "").startswith(m) for m in VIOLATION_MSGS):
                    bad.add(c["fn"])
            bad -= external
            if not bad:
                break
            external |= bad
            meta = worldgen.build(tmpl, repo, out, flags=flags, external=external)
    except (ExtractError, worldgen.WorldError) as e:
        res["reason"] = f"extraction: {e}"
        return res
    external |= {f["id"] for f in meta["functions"] if f.get("external")}
    res["external"] = sorted(external)
    res["functions"] = [f for f in meta["functions"] if not f.get("shadow")]
    shadow = {f["id"] for f in meta["functions"] if f.get("shadow")}
    rlimit = 30 if tier == "quick" else 60
    runs = [(seed if seed else None)]
    if tier == "thorough":
        runs.append((seed or 0) + 7)
    text = open(out).read()
    res["trusted"] = scan_trusted(text)
    all_viol, all_und = {}, []
    total_ms = 0
    for k, sd in enumerate(runs):
        cmd = _verus_cmd(os.path.basename(out), rlimit, sd)
        rc, so, se, wall = _run(cmd, BUILD, timeout)
        if rc is None:
            res["reason"] = "verus timeout"
            return res
        j = _parse_json_out(so)
        vr = j.get("verification-results", {})
        res["verus"] = dict(cmd=" ".join(cmd), verified=vr.get("verified"), errors=vr.get("errors"), wall_s=round(wall, 2),
                            smt_ms=(j.get("times-ms", {}).get("verification", {}) or {}).get("smt", {}).get("total") if isinstance(j.get("times-ms", {}).get("verification", {}).get("smt"), dict) else None,
                            total_ms=j.get("times-ms", {}).get("total"), version=j.get("times-ms", {}).get("verus-build", {}).get("version"))
        total_ms += j.get("times-ms", {}).get("total") or 0
        diags = _parse_diags(se)
        if not vr and not diags:
            res["reason"] = "verus produced no result: " + (se[-400:] if se else "")
            return res
        this_viol = {}
        for d in diags:
            c = classify(d, meta, out)
            if c is None:
                continue
            if c.get("fn") in shadow:
                continue   # duplicate of a function decided in the total-reading world
            if c["kind"] == "violation" and _closure_in_body(c.get("fn"), meta, text):
                # D16: Verus does not see through closures handed to combinators (`x.map(|v| ..)`, `map_err`, `and_then`, ...):
                # a body written that way can be correct and still fail to verify.  Such a failure is a limit of the
                # dialect, not a verdict — undecided for the function's tags (the bounded tier still decides).
                c["kind"] = "undecided"
                c["reason"] = "proof failure in a body that hands closures to combinators (outside the dialect, rule D16): not a verdict"
                all_und.append(c)
            elif c["kind"] == "violation":
                this_viol[c["obligation"]] = c
            elif c["kind"] == "canary":
                all_und.append(dict(msg="canary reported outside canary run", **{k2: c[k2] for k2 in ("fn",)}))
            else:
                all_und.append(c)
        if vr.get("encountered-vir-error") or (vr.get("errors", 0) == 0 and not vr.get("success", False) and not this_viol):
            if not all_und:
                all_und.append(dict(msg="verus did not complete", reason=se[-300:]))
        if k == 0:
            all_viol = this_viol
        else:
            # instability: a failure that does not reproduce under another seed is undecided, not a violation
            for ob in list(all_viol):
                if ob not in this_viol:
                    all_und.append(dict(msg=f"unstable under seed change: {ob}", reason="solver instability"))
                    del all_viol[ob]
    # canary run (vacuity guard): every canary must fail
    cout = os.path.join(BUILD, f"{tag}_canary.rs")
    cmeta = worldgen.build(tmpl, repo, cout, canary_mode=True, flags=flags, external=external)
    ctext = open(cout).read()
    cmd = _verus_cmd(os.path.basename(cout), 10, None, ["--verify-module", "canary"])
    rc, so, se, wall = _run(cmd, BUILD, timeout)
    failed_canaries = set()
    canary_diags = 0
    for d in _parse_diags(se or ""):
        c = classify(d, cmeta, cout)
        if c and c["kind"] == "canary":
            failed_canaries.add(c["canary"])
        if c and d.get("message", "").startswith("postcondition not satisfied"):
            canary_diags += 1
    jc = _parse_json_out(so or "")
    n_generated = len(cmeta.get("canaries", []))
    n_hand = len(re.findall(r"pub proof fn canary_trait_", ctext))
    res["canaries"] = dict(generated=n_generated, hand_written=n_hand, failed_as_required=canary_diags,
                           verified_unexpectedly=(jc.get("verification-results", {}) or {}).get("verified"))
    if canary_diags != n_generated + n_hand or (jc.get("verification-results", {}) or {}).get("verified", 1) != 0:
        all_und.append(dict(msg="vacuity guard: a canary (requires ... ensures false) did not fail", reason="contradictory precondition in the template"))
    # obligations
    obligations = []
    for f in meta["functions"]:
        if f.get("kind") != "fn" or f.get("shadow"):
            continue
        for lab in f["clauses"]:
            if lab.startswith("pre."):
                continue
            ob = f"{f['id']}#ensures.{lab}"
            obligations.append(dict(id=ob, fn=f["id"], tags=f["clause_tags"].get(lab, f["tags"]), status="discharged"))
        obligations.append(dict(id=f"{f['id']}#safety", fn=f["id"], tags=f["safety_tags"], status="discharged",
                                note="no overflow / shift / index / unreachable-panic / callee-precondition failure in the body; trait-level postconditions"))
    template_failed = any(u.get("fn") is None for u in all_und)
    for lm in meta.get("lemmas", []):
        obligations.append(dict(id=f"lemma.{lm['id']}", fn=None, tags=lm["tags"], status="undecided" if template_failed else "discharged",
                                note="lemma over the contracts (template proof fn)"))
    by_id = {o["id"]: o for o in obligations}
    violations = []
    for ob, c in all_viol.items():
        key = ob if ob in by_id else f"{c['fn']}#safety"
        o = by_id.get(key)
        if o is None:
            all_und.append(dict(msg=f"failure in unknown obligation {ob}", reason="mapping"))
            continue
        o["status"] = "failed"
        o.setdefault("failures", []).append(dict(obligation=ob, msg=c["msg"], where=c.get("where"), rendered=c["rendered"]))
        violations.append(dict(obligation=ob, fn=c["fn"], tags=_trait_clause_tags(ob, o["tags"]), msg=c["msg"], rendered=c["rendered"], where=c.get("where")))
    # a function with any failure: its other obligations are not established by this run either, but Verus
    # reports each failed clause separately (--multiple-errors), so the remaining ones stay discharged.
    for fid in external:
        all_und.append(dict(msg="body contains a construct outside the Verus dialect (" + meta.get("auto_external", {}).get(fid, "rejected by Verus' front end") + "); function left unverified (external_body)", fn=fid, reason="dialect"))
    for u in all_und:
        fn = u.get("fn")
        if fn:
            for o in obligations:
                if o["fn"] == fn and o["status"] == "discharged":
                    o["status"] = "undecided"
    res["obligations"] = obligations
    res["violations"] = violations
    res["undecided"] = [dict(msg=u.get("msg"), fn=u.get("fn"), reason=u.get("reason"), rendered=(u.get("rendered") or "")[:600]) for u in all_und]
    n_fn = sum(1 for f in meta["functions"] if f.get("kind") == "fn" and not f.get("external"))
    if not violations and not all_und and not shadow:
        if (res["verus"].get("verified") or 0) < n_fn or (res["verus"].get("errors") or 0) != 0:
            res["undecided"].append(dict(msg="verified-function count below extracted-function count", reason="vacuity guard (i)"))
    res["verus"]["total_ms_all_runs"] = total_ms
    res["status"] = "violations" if violations else ("undecided" if res["undecided"] else "ok")
    return res


_CLOSURE_ARG = re.compile(r"\.\s*(map|map_err|and_then|or_else|unwrap_or_else|map_or|map_or_else|filter|filter_map|for_each|fold|then|is_some_and|is_ok_and|get_or_insert_with|retain|position|any|all|take_while|skip_while|inspect|zip|flat_map)\s*\(\s*(move\s*)?\|")


def _closure_in_body(fid, meta, text):
    """True if the emitted body of extracted function `fid` passes a closure to a combinator."""
    if not fid:
        return False
    lines = text.split("\n")
    body = "\n".join(lines[i] for i, m in enumerate(meta["linemap"]) if i < len(lines) and m.get("fn") == fid and m.get("part") == "body")
    return bool(_CLOSURE_ARG.search(body))


def scan_trusted(text):
    """Mechanical scan of the generated file for everything that is assumed rather than proved."""
    found = []
    for m in re.finditer(r"(assume_specification[^\n]*|#\[verifier::external_body\][^\n]*\n[^\n]*|\badmit\(\)|\bassume\([^\n]*|#\[verifier::external[^\]]*\][^\n]*\n[^\n]*)", text):
        s = re.sub(r"\s+", " ", m.group(0))[:160]
        if s not in found:
            found.append(s)
    return found


if __name__ == "__main__":
    r = run_world(sys.argv[1], repo=sys.argv[2] if len(sys.argv) > 2 else "/repo")
    print(json.dumps({k: v for k, v in r.items() if k not in ("functions", "obligations")}, indent=1)[:6000])
    print(len(r["obligations"]), "obligations;", sum(1 for o in r["obligations"] if o["status"] == "discharged"), "discharged")
