"""World generator: template (.rs.tmpl) + functions extracted from /repo  ->  one Verus file.

Template directives (everything else is copied through verbatim):

    //@fn id=<obligation prefix> file=<path under repo> impl="<impl header regex>" name=<fn> [ret=<name>]
    //@       [tags=C01,C05] [reading=failstop] [vis=pub] [param0=<name>]
    //@| requires
    //@|     [label] clause,
    //@| ensures
    //@|     [label] clause,
    //@loop 0
    //@|     invariant ...
    //@end

The generator emits   <signature, dialect rules applied> <contract lines> <body, dialect rules applied>
and records, for every emitted line, which function / clause label it belongs to, so that the verifier's
spans can be mapped back to named obligations.

Dialect rules (the only differences between the verified text and the text that runs), each logged:
  D1  GAT erasure in signatures/bodies:  ::ReadItem<'x>  ->  ::ReadItem ;  ::Iter<'x> -> ::Iter
  D2  pattern parameter `(a, b): T`  ->  `index: T` + `let (a, b) = index;` as first statement
  D3  `-> T`  ->  `-> (r: T)`
  D6  debug_assert_eq!(a, b) / assert_eq!(a, b)  ->  assert!(a == b)  (likewise _ne, debug_assert!)
      (total reading: obligation that the assertion never fires; fail-stop reading: D7 turns it into a divergence)
  D7  fail-stop reading: assert!(c, ...) -> if !(c) { diverge() } ; panic!(..) -> diverge() ;
      x[i] on Vec/slice -> checked_index(x, i)   (only when reading=failstop)
  D13 explicit token substitutions given in a directive (`subst="Self::Item=>usize"`), for associated
      types of trait impls the world drops
  D12 assert!/panic! format arguments are dropped (message text is not part of the behaviour verified)
  D15 type parameters of an impl block that were renamed in the repository are renamed back (identifier tokens of the
      extracted function only) to the names the template's impl header uses, when the headers agree up to that renaming
  D14 (only with `optmap=1`) `RECV.map(|x| BODY)` on an `Option` receiver is unfolded by std's definition of
      `Option::map`:  `(match RECV { Some(x) => Some(BODY), None => None })`  — Verus has no closures that capture `&mut`.
      Trusted: that definition (the closure runs exactly once, on the `Some` payload).
"""
import json
import os
import re
import shlex
import sys

sys.path.insert(0, os.path.dirname(os.path.abspath(__file__)))
from extract import SourceFile, ExtractError, split_fn, lex, code_tokens, match_bracket, body_hash, norm  # noqa: E402


class WorldError(Exception):
    pass


# Tag groups: the trait-impl obligations of the three index containers carry every property whose generic proof
# relies on "the container satisfies the IndexContainer / Storage contract" for the catalogued compositions.
TAG_GROUPS = {
    "@ic_push": "C05,C01,C02,C03,C04,C12,C13,C19",
    "@ic_index": "C05,C01,C02,C03,C04,C12,C13,C19",
    "@ic_len": "C05,C01,C02,C03,C04,C12,C13,C19",
    "@ic_is_empty": "C05,C03",
    "@ic_clear": "C05,C08,C03,C12",
    "@ic_reserve": "C05,C10,C03",
}


def _parse_kv(s):
    out = {}
    for part in shlex.split(s):
        if "=" not in part:
            raise WorldError(f"bad directive token {part!r}")
        k, v = part.split("=", 1)
        if k in ("tags", "safety", "fstags"):
            v = ",".join(dict.fromkeys(",".join(TAG_GROUPS.get(t, t) for t in v.split(",")).split(",")))
        out[k] = v
    return out


def rule_D1(text, log):
    new, n = re.subn(r"(::\s*(?:ReadItem|Iter))\s*<\s*'[A-Za-z_]+\s*>", r"\1", text)
    if n:
        log.append(f"D1 x{n}")
    return new


def _find_macro_calls(text, name):
    """Yield (start, end, args_text) of `name!( ... )` invocations found at token level."""
    toks = lex(text)
    ct = code_tokens(toks)
    out = []
    i = 0
    while i < len(ct) - 2:
        if ct[i].kind == "ident" and ct[i].text == name and ct[i + 1].text == "!" and ct[i + 2].text in "([{":
            j = match_bracket(ct, i + 2)
            out.append((ct[i].start, ct[j].end, text[ct[i + 2].end:ct[j].start]))
            i = j + 1
        else:
            i += 1
    return out


def _split_top_commas(args):
    ct = code_tokens(lex(args))
    parts, depth, last = [], 0, 0
    for t in ct:
        if t.kind == "punct" and t.text in "([{":
            depth += 1
        elif t.kind == "punct" and t.text in ")]}":
            depth -= 1
        elif t.kind == "punct" and t.text == "," and depth == 0:
            parts.append(args[last:t.start])
            last = t.end
    tail = args[last:]
    if tail.strip():
        parts.append(tail)
    return [p.strip() for p in parts]


def _split_top_commas_angle(args):
    """Like _split_top_commas but `<...>` also nests (type contexts)."""
    ct = code_tokens(lex(args))
    parts, depth, last = [], 0, 0
    for i, t in enumerate(ct):
        if t.kind == "punct" and t.text in "([{<":
            depth += 1
        elif t.kind == "punct" and t.text in ")]}":
            depth -= 1
        elif t.kind == "punct" and t.text == ">" and not (i > 0 and ct[i - 1].text == "-"):
            depth -= 1
        elif t.kind == "punct" and t.text == "," and depth == 0:
            parts.append(args[last:t.start])
            last = t.end
    tail = args[last:]
    if tail.strip():
        parts.append(tail)
    return [p.strip() for p in parts]


def rule_D6(text, log):
    n = 0
    for mac, op in (("debug_assert_eq", "=="), ("debug_assert_ne", "!="), ("assert_eq", "=="), ("assert_ne", "!=")):
        calls = _find_macro_calls(text, mac)
        for (s, e, args) in reversed(calls):
            parts = _split_top_commas(args)
            if len(parts) < 2:
                raise WorldError(f"{mac}! with <2 args")
            text = text[:s] + f"assert!(({parts[0]}) {op} ({parts[1]}))" + text[e:]
        n += len(calls)
    calls = _find_macro_calls(text, "debug_assert")
    for (s, e, args) in reversed(calls):
        parts = _split_top_commas(args)
        text = text[:s] + f"assert!({parts[0]})" + text[e:]
    n += len(calls)
    if n:
        log.append(f"D6 x{n}")
    return text


def rule_D12(text, log):
    n = 0
    for mac in ("assert", "panic"):
        calls = _find_macro_calls(text, mac)
        for (s, e, args) in reversed(calls):
            parts = _split_top_commas(args)
            if mac == "assert" and len(parts) > 1:
                text = text[:s] + f"assert!({parts[0]})" + text[e:]
                n += 1
            elif mac == "panic" and len(parts) >= 1 and args.strip():
                text = text[:s] + "panic!()" + text[e:]
                n += 1
    if n:
        log.append(f"D12 x{n}")
    return text


def rule_D7(text, log, index_bases):
    n = 0
    for (s, e, args) in reversed(_find_macro_calls(text, "assert")):
        parts = _split_top_commas(args)
        text = text[:s] + f"if !({parts[0]}) {{ diverge() }}" + text[e:]
        n += 1
    for (s, e, args) in reversed(_find_macro_calls(text, "panic")):
        text = text[:s] + "diverge()" + text[e:]
        n += 1
    # x[i] -> checked indexing model for the base expressions listed in the directive:
    #   base:ref   `base[i]` (auto-referenced place of non-Copy type) and `&base[i]`  ->  checked_index_ref(base, i)
    #   base:val   `base[i]` read by value (Copy)                                    ->  (*checked_index_ref(base, i))
    #   base:vec   `base[i]` on a `&Vec<T>` read by value                            ->  (*checked_index_vec(base, i))
    for spec in index_bases:
        base, _, mode = spec.partition(":")
        mode = mode or "val"
        rx = re.compile(r"(?<![A-Za-z0-9_.])(&?)" + re.escape(base) + r"\[([^\[\]]+)\]")

        def rep(m):
            if mode == "vec":
                return f"(*checked_index_vec({base}, {m.group(2)}))"
            if mode == "ref" or m.group(1) == "&":
                return f"checked_index_ref({base}, {m.group(2)})"
            return f"(*checked_index_ref({base}, {m.group(2)}))"
        text, k = rx.subn(rep, text)
        if k == 0:
            raise ExtractError(f"D7: indexing of {base!r} not found (anchor lost)")
        n += k
    if n:
        log.append(f"D7 x{n}")
    return text


def transform_signature(sig, d, log):
    """D1, D2, D3 on a fn signature (text up to, not including, the body's `{`)."""
    sig = rule_D1(sig, log)
    pre_stmt = ""
    # D2: pattern parameter
    m = re.search(r"\(\s*\(\s*([a-z_]+)\s*,\s*([a-z_]+)\s*\)\s*:", sig) or re.search(r",\s*\(\s*([a-z_]+)\s*,\s*([a-z_]+)\s*\)\s*:", sig)
    if m:
        a, b = m.group(1), m.group(2)
        pname = d.get("param0", "index")
        sig = sig[:m.start()] + sig[m.start():m.end()].replace(f"({a}, {b})", pname, 1) + sig[m.end():]
        if f"({a}, {b})" in sig[m.start():m.end() + 5]:
            raise WorldError("D2 rewrite failed")
        pre_stmt = f"let ({a}, {b}) = {pname};"
        log.append("D2 x1")
    # D3: named result.  Split a trailing where-clause off first.
    ret = d.get("ret")
    ct = code_tokens(lex(sig))
    # find `->` at depth 0 after the parameter list
    depth = 0
    arrow = None
    where_at = None
    k = 0
    # skip to the parameter list's closing paren: first "(" after fn name at angle-depth 0
    angle = 0
    while k < len(ct):
        t = ct[k]
        if t.text == "<":
            angle += 1
        elif t.text == ">" and not (k > 0 and ct[k - 1].text == "-"):
            angle -= 1
        elif t.text == "(" and angle == 0:
            k = match_bracket(ct, k)
            break
        k += 1
    params_end = k
    k += 1
    while k < len(ct):
        t = ct[k]
        if t.kind == "punct" and t.text in "([":
            k = match_bracket(ct, k)
        elif t.text == "-" and k + 1 < len(ct) and ct[k + 1].text == ">" and arrow is None:
            arrow = k
        elif t.kind == "ident" and t.text == "where":
            where_at = k
            break
        k += 1
    where_txt = ""
    head = sig
    if where_at is not None:
        where_txt = sig[ct[where_at].start:]
        head = sig[:ct[where_at].start].rstrip()
    if arrow is not None:
        ret_ty = head[ct[arrow + 1].end:].strip()
        head = head[:ct[arrow].start].rstrip()
        if ret:
            head = f"{head} -> ({ret}: {ret_ty})"
            log.append("D3 x1")
        else:
            head = f"{head} -> {ret_ty}"
    return head, where_txt, pre_stmt


def transform_body(body, d, log, pre_stmt=""):
    body = rule_D1(body, log)
    body = rule_D6(body, log)
    if d.get("reading") == "failstop":
        bases = [b for b in d.get("index_bases", "").split(",") if b]
        body = rule_D7(body, log, bases)
    else:
        body = rule_D12(body, log)
    if d.get("optmap") == "1":
        body = rule_D14(body, log)
    if pre_stmt:
        assert body.lstrip().startswith("{")
        k = body.index("{")
        body = body[:k + 1] + "\n        " + pre_stmt + body[k + 1:]
    return body


def rule_D14(body, log):
    """Unfold `RECV.map(|x| BODY)` (closure literal with one plain identifier parameter) by Option::map's definition."""
    n = 0
    while True:
        m = re.search(r"\.\s*map\s*\(\s*\|\s*([a-z_][a-z0-9_]*)\s*\|", body)
        if not m:
            break
        # closing parenthesis of the call
        k = body.index("(", m.start())
        depth, j = 0, k
        while j < len(body):
            if body[j] in "([{":
                depth += 1
            elif body[j] in ")]}":
                depth -= 1
                if depth == 0:
                    break
            j += 1
        if j >= len(body):
            raise ExtractError("D14: unbalanced `.map(` call")
        clo = body[m.end():j].strip()
        # receiver: maximal postfix chain to the left (identifiers, field access, calls without closures)
        i = m.start()
        while i > 0:
            c = body[i - 1]
            if c.isalnum() or c in "_.:":
                i -= 1
            elif c == ")":
                d2, q = 0, i - 1
                while q >= 0:
                    if body[q] == ")":
                        d2 += 1
                    elif body[q] == "(":
                        d2 -= 1
                        if d2 == 0:
                            break
                    q -= 1
                i = q
            else:
                break
        recv = body[i:m.start()].strip()
        if not recv:
            raise ExtractError("D14: `.map(|x| ..)` without a receiver expression")
        body = body[:i] + f"(match {recv} {{ Some({m.group(1)}) => Some({clo}), None => None }})" + body[j + 1:]
        n += 1
    if n:
        log.append(f"D14 x{n}")
    return body


def find_loops(body):
    """Offsets of the `{` opening the body of each `for`/`while`/`loop`, in source order."""
    ct = code_tokens(lex(body))
    out = []
    for i, t in enumerate(ct):
        if t.kind == "ident" and t.text in ("for", "while", "loop"):
            if t.text == "for" and i + 1 < len(ct) and ct[i + 1].text == "<":
                continue  # for<'a> bound
            j = i + 1
            while j < len(ct) and ct[j].text != "{":
                if ct[j].kind == "punct" and ct[j].text in "([":
                    j = match_bracket(ct, j)
                j += 1
            if j < len(ct):
                out.append(ct[j].start)
    return out


class World:
    def __init__(self, tmpl_path, repo, canary_mode=False, flags=(), external=()):
        self.external = set(external)   # fn ids whose body is outside the dialect on this tree: emitted as external_body
        self.auto_external = {}         # fn id -> reason, for functions made external by the generator itself
        self.canary_mode = canary_mode
        self.flags = set(flags) | ({"canary"} if canary_mode else set())
        self.tmpl_path = tmpl_path
        self.repo = repo
        self.files = {}
        self.lines = []          # emitted lines
        self.linemap = []        # per emitted line: dict(fn=<id>|None, label=<str>|None, part=sig|contract|body|tmpl)
        self.functions = []      # dict per extracted fn
        self.dropped = []
        self.lemmas = []         # dict(id, tags): template lemmas over the contracts, counted as obligations
        self.canaries = []       # (name, fn id, text)
        self.cur_impl = None     # (indent, header text) of the template impl block being emitted

    def sf(self, rel):
        if rel not in self.files:
            self.files[rel] = SourceFile(os.path.join(self.repo, rel), rel)
        return self.files[rel]

    def emit(self, text, **meta):
        for ln in text.split("\n"):
            self.lines.append(ln)
            self.linemap.append(dict(meta))

    def generate(self):
        with open(self.tmpl_path) as f:
            tl = f.read().split("\n")
        # //@include <path relative to the template's directory>
        k = 0
        while k < len(tl):
            if tl[k].strip().startswith("//@include "):
                inc = os.path.join(os.path.dirname(self.tmpl_path), tl[k].strip().split(None, 1)[1])
                with open(inc) as f:
                    tl[k:k + 1] = f.read().rstrip("\n").split("\n")
            else:
                k += 1
        i = 0
        while i < len(tl):
            ln = tl[i]
            s = ln.strip()
            if s.startswith("//@fn "):
                d = _parse_kv(s[len("//@fn "):])
                i += 1
                while i < len(tl) and tl[i].strip().startswith("//@ ") and not tl[i].strip().startswith("//@|"):
                    d.update(_parse_kv(tl[i].strip()[4:]))
                    i += 1
                contract = []      # (label, text)
                clause_tags = {}
                loops = {}
                cur = contract
                fs_mode = "failstop" in self.flags and d.get("failstop") == "1"
                if fs_mode:
                    d["reading"] = "failstop"
                    d["id"] = d["id"] + "@failstop"
                    if "fstags" in d:
                        d["tags"] = d["fstags"]
                        d.pop("safety", None)
                elif "failstop" in self.flags:
                    d["shadow"] = "1"
                while i < len(tl) and tl[i].strip() != "//@end":
                    t = tl[i].strip()
                    if t.startswith("//@F|"):
                        if not fs_mode:
                            i += 1
                            continue
                        t = "//@|" + t[5:]
                    elif t.startswith("//@|") and fs_mode and d.get("fsreplace", "1") == "1":
                        i += 1
                        continue
                    if t.startswith("//@|"):
                        c = t[4:]
                        m = re.match(r"\s*\[([A-Za-z0-9_.\-]+)(?:\s+@([A-Z0-9,]+))?\]\s*(.*)", c)
                        if m:
                            cur.append((m.group(1), "        " + m.group(3)))
                            if m.group(2):
                                clause_tags[m.group(1)] = m.group(2).split(",")
                        else:
                            cur.append((None, c if c.startswith(" ") else " " + c))
                    elif t.startswith("//@loop "):
                        cur = loops.setdefault(int(t.split()[1]), [])
                    elif t == "" or t.startswith("//"):
                        pass
                    else:
                        raise WorldError(f"{self.tmpl_path}:{i+1}: unexpected line in //@fn block: {t}")
                    i += 1
                if i >= len(tl):
                    raise WorldError("unterminated //@fn block")
                i += 1
                self.emit_fn(d, contract, loops, indent=re.match(r"\s*", ln).group(0), clause_tags=clause_tags)
            elif s.startswith("//@if ") or s.startswith("//@ifnot "):
                neg = s.startswith("//@ifnot ")
                on = (s.split()[1] in self.flags) != neg
                i += 1
                if not on:
                    while i < len(tl) and tl[i].strip() != "//@endif":
                        i += 1
                    i += 1
            elif s == "//@endif":
                i += 1
            elif s.startswith("//@lemma "):
                d = _parse_kv(s[len("//@lemma "):])
                self.lemmas.append(dict(id=d["id"], tags=[t for t in d.get("tags", "").split(",") if t]))
                i += 1
            elif s == "//@canaries":
                self.emit_canaries(indent=re.match(r"\s*", ln).group(0))
                i += 1
            elif s.startswith("//@struct "):
                d = _parse_kv(s[len("//@struct "):])
                self.emit_struct(d, indent=re.match(r"\s*", ln).group(0))
                i += 1
            else:
                if re.match(r"\s*impl\b", ln):
                    hdr, k = ln, i
                    while "{" not in tl[k] and k + 1 < len(tl):
                        k += 1
                        hdr += " " + tl[k].strip()
                    self.cur_impl = (re.match(r"\s*", ln).group(0), hdr.split("{")[0].strip())
                elif self.cur_impl and ln == self.cur_impl[0] + "}":
                    self.cur_impl = None
                self.emit(ln, part="tmpl")
                i += 1
        return "\n".join(self.lines) + "\n"

    def emit_canaries(self, indent=""):
        for (name, fid, text) in self.canaries:
            self.emit("\n".join(indent + l for l in text.split("\n")), part="canary", fn=fid, canary=name)

    def emit_struct(self, d, indent=""):
        """Copy a struct/enum definition; fields made pub (D10); attributes and where-clauses dropped."""
        sf = self.sf(d["file"])
        it = sf.item(d.get("kind", "struct"), d["name"])
        text = it.text
        log = []
        text = rule_D1(text, log)
        # drop doc comments and attributes inside
        text = re.sub(r"^\s*///.*\n", "", text, flags=re.M)
        text = re.sub(r"^\s*#\[[^\]]*\]\s*\n", "", text, flags=re.M)
        if d.get("kind", "struct") == "struct":
            text = re.sub(r"^(\s+)(pub\s+)?([a-z_][a-z0-9_]*\s*:)", r"\1pub \3", text, flags=re.M)
        if not text.startswith("pub"):
            text = "pub " + text
        mt = re.match(r"(pub\s+struct\s+[A-Za-z0-9_]+\s*(?:<[^()]*>)?\s*)\((.*)\)\s*;\s*$", text, flags=re.S)
        if mt and d.get("kind", "struct") == "struct":
            fields = ["pub " + re.sub(r"^pub\s+", "", f) for f in _split_top_commas_angle(mt.group(2))]
            text = mt.group(1) + "(" + ", ".join(fields) + ");"
        if "erase" in d:
            lt = "'" + d["erase"]
            n0 = text.count(lt)
            text = re.sub(r"<\s*" + lt + r"\s*,\s*", "<", text)
            text = re.sub(r"<\s*" + lt + r"\s*>", "", text)
            text = re.sub(r"&\s*" + lt + r"\b", "&'static", text)
            if lt in text:
                raise ExtractError(f"struct {d['name']}: lifetime {lt} not fully erased (outside the dialect)")
            log.append(f"D1 x{n0}")
        if "subst" in d:
            for pair in d["subst"].split(";;"):
                a, b = pair.split("=>")
                if a not in text:
                    raise ExtractError(f"struct {d['name']}: D13 substitution source {a!r} not found (anchor lost)")
                text = text.replace(a, b)
                log.append(f"D13 {a}=>{b}")
        if "header" in d:
            # replace the header (generics/bounds) by the world's; a where-clause after tuple fields is dropped
            if d.get("tuple") == "1":
                ct = code_tokens(lex(text))
                k = next(i for i, t in enumerate(ct) if t.text == "(")
                j = match_bracket(ct, k)
                text = d["header"] + text[ct[k].start:ct[j].end] + ";"
            else:
                k = text.index("{")
                text = d["header"] + " " + text[k:]
        mt = re.match(r"(pub\s+struct\s+[A-Za-z0-9_]+\s*(?:<.*?>)?\s*)\((.*)\)\s*;\s*$", text, flags=re.S)
        if mt and d.get("tuple") == "1":
            fields = ["pub " + re.sub(r"^pub\s+", "", f) for f in _split_top_commas_angle(mt.group(2))]
            text = mt.group(1) + "(" + ", ".join(fields) + ");"
        self.emit("\n".join(indent + l for l in text.split("\n")), part="struct", fn=None)
        self.functions.append(dict(id=f"{d.get('kind','struct')}:{d['name']}", file=d["file"], line=it.line, end_line=it.end_line,
                                   hash=body_hash(it.text), rules=log + ["D10"], kind="type"))

    def emit_fn(self, d, contract, loops, indent="", clause_tags=None):
        fid = d["id"]
        sf = self.sf(d["file"])
        impl_pat = d.get("impl")
        it = sf.fn(impl_pat, d["name"])
        sig, body = split_fn(it)
        log = []
        if it.rename:
            # D15: the impl block was matched after renaming its type parameters to the names the template uses
            log.append("D15 alpha-renamed " + ",".join(f"{a}->{b}" for a, b in sorted(it.rename.items())))
        head, where_txt, pre_stmt = transform_signature(sig, d, log)
        if d.get("vis") == "pub" and not head.startswith("pub"):
            head = "pub " + head
        if d.get("vis") == "none" and head.startswith("pub "):
            head = head[4:]
        if "rename" in d:
            head = re.sub(r"\bfn\s+" + re.escape(d["name"]) + r"\b", "fn " + d["rename"], head, count=1)
            log.append(f"renamed->{d['rename']}")
        if d.get("drop_where") == "1":
            where_txt = ""
        try:
            body = transform_body(body, d, log, pre_stmt)
        except ExtractError as e:
            # a body-level dialect rule lost its anchor (e.g. D7: the indexing expression it rewrites is gone): outside
            # the dialect for THIS function only — emitted as external_body, undecided for its own tags
            self.external.add(fid)
            self.auto_external[fid] = str(e)
        if "subst" in d:
            # D13: explicit token substitutions listed in the directive (e.g. an associated type of a dropped
            # trait impl: `Self::Item=>usize`)
            for pair in d["subst"].split(";;"):
                a, b = pair.split("=>")
                k = head.count(a) + body.count(a)
                if k == 0:
                    if fid in self.external:
                        continue
                    raise ExtractError(f"{fid}: D13 substitution source {a!r} not found (anchor lost)")
                head = head.replace(a, b)
                body = body.replace(a, b)
                log.append(f"D13 {a}=>{b} x{k}")
        # loop invariants
        # (a body whose loops no longer match the invariants of the contract is outside the dialect for THIS function only:
        # it is emitted as external_body — undecided for its own tags — instead of sinking the whole world)
        if loops:
            offs = find_loops(body)
            for k in sorted(loops, reverse=True):
                if k >= len(offs):
                    self.external.add(fid)
                    self.auto_external[fid] = f"loop #{k} of the contract not found in the body (anchor lost)"
                    break
                inv = "\n".join(t for (_, t) in loops[k])
                body = body[:offs[k]] + "\n" + inv + "\n" + indent + "    " + body[offs[k]:]
        elif find_loops(body) and d.get("loops") != "none":
            self.external.add(fid)
            self.auto_external[fid] = "body has a loop but the contract has no invariant for it"
        if d.get("canary") != "none" and d.get("shadow") != "1":
            c = make_canary(len(self.canaries), fid, head, contract, self.cur_impl[1] if self.cur_impl else None)
            if c:
                self.canaries.append((c[0], fid, c[1]))
        if fid in self.external:
            # the body contains a construct Verus cannot read: keep the contract (callers still use it) but do not verify
            self.emit(indent + "#[verifier::external_body]", fn=fid, part="sig")
        self.emit(indent + head.replace("\n", "\n" + indent), fn=fid, part="sig")
        if where_txt:
            self.emit(indent + "    " + " ".join(where_txt.split()), fn=fid, part="sig")
        for (label, text) in contract:
            self.emit(indent + text, fn=fid, part="contract", label=label)
        if fid in self.external:
            # (rustc still type-checks the body of an external_body function: a call to a helper that is not part of the
            # world would sink the whole file, so the body is not emitted at all)
            self.emit(indent + "{ unimplemented!() }", fn=fid, part="body")
        else:
            self.emit(indent + body, fn=fid, part="body")
        self.functions.append(dict(id=fid, file=d["file"], impl=impl_pat, name=d["name"], line=it.line, end_line=it.end_line,
                                   hash=body_hash(it.text), rules=log, tags=[t for t in d.get("tags", "").split(",") if t],
                                   reading=d.get("reading", "total"), kind="fn",
                                   clauses=[l for (l, _) in contract if l], cex=d.get("cex"),
                                   shadow=d.get("shadow") == "1", external=fid in self.external,
                                   clause_tags=clause_tags or {}, safety_tags=[t for t in d.get("safety", d.get("tags", "")).split(",") if t]))


def _impl_parts(header):
    """impl<G> Type where W  ->  (G, Type, W) ; None for trait impls."""
    ct = code_tokens(lex(header))
    if not ct or ct[0].text != "impl":
        return None
    k = 1
    gen = ""
    if k < len(ct) and ct[k].text == "<":
        depth = 0
        j = k
        while j < len(ct):
            if ct[j].text == "<":
                depth += 1
            elif ct[j].text == ">":
                depth -= 1
                if depth == 0:
                    break
            j += 1
        gen = header[ct[k].start:ct[j].end]
        k = j + 1
    rest_start = ct[k].start
    where = ""
    ty_end = len(header)
    depth = 0
    for j in range(k, len(ct)):
        t = ct[j]
        if t.text == "<":
            depth += 1
        elif t.text == ">":
            depth -= 1
        elif t.kind == "ident" and t.text == "for" and depth == 0:
            return None
        elif t.kind == "ident" and t.text == "where" and depth == 0:
            where = header[t.start:]
            ty_end = t.start
            break
    return gen, header[rest_start:ty_end].strip(), where.strip().rstrip(",")


def make_canary(k, fid, head, contract, impl_header):
    """A proof fn with the function's preconditions and `ensures false`: it MUST fail to verify.
    Returns (name, text) or None when the function has no precondition / is outside what we can restate."""
    reqs, mode = [], None
    for (_, t) in contract:
        w = t.strip()
        if w.startswith("requires"):
            mode = "r"
            w = w[len("requires"):].strip()
        elif w.startswith("ensures") or w.startswith("decreases"):
            mode = None
        if mode == "r" and w:
            reqs.append(w)
    if not reqs:
        return None
    ct = code_tokens(lex(head))
    # locate the parameter list
    angle, k0 = 0, None
    for i, t in enumerate(ct):
        if t.text == "<":
            angle += 1
        elif t.text == ">" and not (i > 0 and ct[i - 1].text == "-"):
            angle -= 1
        elif t.text == "(" and angle == 0:
            k0 = i
            break
    if k0 is None:
        return None
    k1 = match_bracket(ct, k0)
    params = _split_top_commas(head[ct[k0].end:ct[k1].start])
    fn_generics = ""
    # generics of the fn itself: between fn name and "("
    m = re.search(r"\bfn\s+[A-Za-z_0-9]+\s*(<.*>)\s*$", head[:ct[k0].start].strip(), flags=re.S)
    if m:
        fn_generics = m.group(1)
    gen, ty, where = "", None, ""
    if impl_header:
        parts = _impl_parts(impl_header)
        if parts is None:
            return None
        gen, ty, where = parts
    out_params = []
    for p in params:
        q = p.strip()
        if re.fullmatch(r"(&\s*('[a-z_]+\s+)?(mut\s+)?)?(mut\s+)?self", q):
            if ty is None:
                return None
            out_params.append(f"s: {ty}")
        else:
            q = re.sub(r"^mut\s+", "", q)
            if "impl " in q:
                return None
            out_params.append(q)
    if fn_generics and gen:
        generics = gen[:-1] + ", " + fn_generics[1:]
    else:
        generics = gen or fn_generics
    req_txt = "\n        ".join(reqs)
    req_txt = req_txt.replace("old(self)", "s")
    req_txt = re.sub(r"\*?\bself\b", "s", req_txt)
    if ty:
        req_txt = re.sub(r"\bSelf\b", ty, req_txt)
        out_params = [re.sub(r"\bSelf\b", ty, q) for q in out_params]
    name = f"canary_{k}"
    w = f"\n    {where}," if where else ""
    text = (f"// canary for {fid}: preconditions must be satisfiable, so `ensures false` MUST fail\n"
            f"pub proof fn {name}{generics}({', '.join(out_params)}){w}\n    requires\n        {req_txt}\n    ensures false,\n{{\n}}\n")
    return name, text


def build(tmpl_path, repo, out_path, canary_mode=False, flags=(), external=()):
    w = World(tmpl_path, repo, canary_mode, flags, external)
    text = w.generate()
    os.makedirs(os.path.dirname(out_path), exist_ok=True)
    with open(out_path, "w") as f:
        f.write(text)
    meta = dict(template=tmpl_path, out=out_path, functions=w.functions, linemap=w.linemap, auto_external=w.auto_external,
                canaries=[dict(name=n, fn=f) for (n, f, _) in w.canaries], lemmas=w.lemmas)
    with open(out_path + ".map.json", "w") as f:
        json.dump(meta, f)
    return meta


if __name__ == "__main__":
    m = build(sys.argv[1], sys.argv[2], sys.argv[3])
    print(f"{len(m['functions'])} items extracted -> {sys.argv[3]}")
