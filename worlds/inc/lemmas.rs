pub mod lemmas {
    use vstd::prelude::*;
    use vstd::arithmetic::mul::*;

    /// s * i is monotone in i (naturals).
    pub broadcast proof fn mul_mono(s: int, i: int, j: int)
        requires 0 <= s, 0 <= i <= j,
        ensures #[trigger] (s * i) <= #[trigger] (s * j), 0 <= s * i,
    {
        lemma_mul_inequality(i, j, s);
        lemma_mul_is_commutative(s, i);
        lemma_mul_is_commutative(s, j);
        lemma_mul_nonnegative(s, i);
    }

    /// s * (c - 1) + s == s * c.
    pub broadcast proof fn mul_step(s: int, c: int)
        ensures #[trigger] (s * (c - 1)) + s == s * c,
    {
        lemma_mul_is_distributive_sub(s, c, 1);
    }

    pub broadcast proof fn mul_zero_one(s: int)
        ensures #[trigger] (s * 0) == 0, #[trigger] (s * 1) == s, #[trigger] (0 * s) == 0,
    {
    }

    pub broadcast group arith {
        mul_mono,
        mul_step,
        mul_zero_one,
    }
}

//@if failstop
// D7: models of Rust's panic and bounds-check semantics for the fail-stop reading.
pub mod failstop {
    use vstd::prelude::*;

    /// `panic!` / a failed `assert!`: never returns.
    #[verifier::external_body]
    pub fn diverge() -> ! {
        panic!()
    }

    /// `slice[i]`: returns only if `i` is in bounds.
    #[verifier::external_body]
    pub fn checked_index_ref<T>(v: &[T], i: usize) -> (r: &T)
        ensures i < v@.len(), *r == v@[i as int],
    {
        &v[i]
    }

    /// `vec[i]`: returns only if `i` is in bounds.
    #[verifier::external_body]
    pub fn checked_index_vec<T>(v: &Vec<T>, i: usize) -> (r: &T)
        ensures i < v@.len(), *r == v@[i as int],
    {
        &v[i]
    }
}
//@endif
