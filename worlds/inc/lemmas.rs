pub mod lemmas {
    use vstd::prelude::*;
    use vstd::arithmetic::mul::*;

    /// s * i is monotone in i (naturals).
    pub broadcast proof fn mul_mono(s: int, i: int, j: int)
        requires 0 <= s, 0 <= i <= j,
        ensures #[trigger] (s * i) <= #[trigger] (s * j), 0 <= s * i,
    {
        lemma_mul_inequality(i, j, s);
        lemma_mul_is_commutative(s, i);
        lemma_mul_is_commutative(s, j);
        lemma_mul_nonnegative(s, i);
    }

    /// s * (c - 1) + s == s * c.
    pub broadcast proof fn mul_step(s: int, c: int)
        ensures #[trigger] (s * (c - 1)) + s == s * c,
    {
        lemma_mul_is_distributive_sub(s, c, 1);
    }

    pub broadcast proof fn mul_zero_one(s: int)
        ensures #[trigger] (s * 0) == 0, #[trigger] (s * 1) == s, #[trigger] (0 * s) == 0,
    {
    }

    pub broadcast group arith {
        mul_mono,
        mul_step,
        mul_zero_one,
    }
}
