    // World versions of `Region`, `Push<T>`, `IntoOwned` (GAT lifetimes erased, rule D1).
    // Dropped members (D4): merge_regions, reserve_regions, heap_size, reborrow, ReserveItems.
    // Added: ghost type `Val`, spec functions, laws.

    pub trait IntoOwned: Sized {
        type Owned;
        /// `o` is the owned form of `self` (C14).  Impls whose bodies are outside the dialect define it as `true`, so that
        /// nothing is assumed about them; Option / Result define it structurally and are proved relative to their parts.
        spec fn own_rel(self, o: Self::Owned) -> bool;
        fn into_owned(self) -> (r: Self::Owned)
            ensures self.own_rel(r);
        fn clone_onto(self, other: &mut Self::Owned)
            ensures self.own_rel(*final(other));
        fn borrow_as(owned: &Self::Owned) -> (r: Self)
            ensures r.own_rel(*owned);
    }

    pub trait Region: Sized + Default + 'static {
        type Owned: 'static;
        type ReadItem: IntoOwned<Owned = Self::Owned>;
        type Index: Copy + 'static;
        /// Ghost: the abstract value of one stored item.
        type Val;

        /// Representation invariant.
        spec fn inv(&self) -> bool;
        /// `i` was returned by `push` on this region since its last `clear`.
        spec fn issued(&self, i: Self::Index) -> bool;
        /// Abstract value stored at an issued index.
        spec fn rd(&self, i: Self::Index) -> Self::Val;
        /// Abstract value of a read item.
        spec fn abs(r: Self::ReadItem) -> Self::Val;
        /// Abstract value of an owned item.
        spec fn oabs(o: Self::Owned) -> Self::Val;
        /// Content and bookkeeping equal those of `Default::default()` (allocations are not part of it).
        spec fn fresh(&self) -> bool;
        /// Fewer than 2^64 - 1 entries in every internal container (so that counters cannot overflow).
        spec fn room(&self) -> bool;

        // Dense (start,end)-indexed regions only; meaningless (unconstrained) otherwise.
        spec fn is_dense() -> bool;
        spec fn lo(i: Self::Index) -> int;
        spec fn hi(i: Self::Index) -> int;
        spec fn end(&self) -> int;

        /// Law: `Default::default()` is well-formed and fresh.
        proof fn default_law(r: Self)
            requires call_ensures(<Self as Default>::default, (), r),
            ensures r.inv(), r.fresh(), r.room();

        fn index(&self, index: Self::Index) -> (r: Self::ReadItem)
            requires self.inv(), self.issued(index),
            ensures Self::abs(r) =~= self.rd(index);

        fn clear(&mut self)
            requires old(self).inv(),
            ensures final(self).inv(), final(self).fresh(), final(self).room();
    }

    pub trait Push<T>: Region {
        /// Abstract value of an input item.
        spec fn val(item: T) -> Self::Val;

        fn push(&mut self, item: T) -> (r: Self::Index)
            requires old(self).inv(), old(self).room(),
            ensures
                final(self).inv(),
                // C01: the returned index reads back the pushed value
                final(self).issued(r),
                final(self).rd(r) =~= Self::val(item),
                // C02: every previously issued index keeps reading the same value
                forall|i: Self::Index| #[trigger] old(self).issued(i) ==> final(self).issued(i) && final(self).rd(i) =~= old(self).rd(i),
                // C12: dense regions hand out adjacent ranges
                Self::is_dense() ==> Self::lo(r) == old(self).end() && Self::hi(r) == final(self).end() && Self::lo(r) <= Self::hi(r);
    }

    /// Laws of dense `(start, end)`-indexed regions.
    pub trait Dense: Region<Index = (usize, usize)> {
        proof fn pair_law(i: (usize, usize))
            ensures Self::is_dense(), Self::lo(i) == i.0, Self::hi(i) == i.1;
        proof fn fresh_law(&self)
            requires self.inv(), self.fresh(),
            ensures self.end() == 0;
        proof fn end_law(&self)
            requires self.inv(),
            ensures 0 <= self.end() <= usize::MAX;
    }

    /// Regions that store byte strings and read them back as `&[u8]`.
    pub trait ByteRegion: Region<ReadItem = &'static [u8], Val = Seq<u8>> {
        proof fn abs_law(r: &'static [u8])
            ensures Self::abs(r) == r@;
    }

    pub trait BytePush: ByteRegion + Push<&'static [u8]> {
        proof fn val_law(item: &'static [u8])
            ensures Self::val(item) == item@;
    }

    /// The equality `CollapseSequence` uses is a function of the abstract value of the read item, and equal
    /// items have equal abstract values (so that returning the old index reads back the pushed value).
    pub trait CollapseEq<R: Push<Self>>: PartialEq<R::ReadItem> + Sized {
        spec fn eqv(item: Self, v: R::Val) -> bool;
        proof fn eq_law(item: Self, r: R::ReadItem)
            ensures item.eq_spec(&r) == Self::eqv(item, R::abs(r));
        proof fn eq_obeys()
            ensures <Self as vstd::std_specs::cmp::PartialEqSpec<R::ReadItem>>::obeys_eq_spec();
        proof fn eqv_sound(item: Self, v: R::Val)
            requires Self::eqv(item, v),
            ensures R::val(item) == v;
    }

    pub broadcast proof fn region_default<R: Region>(r: R)
        requires call_ensures(<R as Default>::default, (), r),
        ensures #![trigger call_ensures(<R as Default>::default, (), r), r.inv()]
                #![trigger call_ensures(<R as Default>::default, (), r), r.fresh()]
                #![trigger call_ensures(<R as Default>::default, (), r), r.room()]
                r.inv(), r.fresh(), r.room(),
    {
        R::default_law(r)
    }

    pub broadcast proof fn dense_pair<R: Dense>(i: (usize, usize))
        ensures R::is_dense(), #[trigger] R::lo(i) == i.0, #[trigger] R::hi(i) == i.1,
    {
        R::pair_law(i)
    }

    /// (Separate from `dense_pair` because its triggers sit under `is_dense() ==>` in the push contract and are not
    /// relevant to the solver until `is_dense()` itself is known.)
    pub broadcast proof fn dense_is_dense<R: Dense>(r: &R)
        ensures #![trigger r.end()] #![trigger r.inv()]
            R::is_dense(),
    {
        R::pair_law((0, 0))
    }

    pub broadcast proof fn dense_fresh<R: Dense>(r: &R)
        requires r.inv(), #[trigger] r.fresh(),
        ensures r.end() == 0,
    {
        r.fresh_law()
    }

    pub broadcast proof fn dense_end<R: Dense>(r: &R)
        requires r.inv(),
        ensures 0 <= #[trigger] r.end() <= usize::MAX,
    {
        r.end_law()
    }

    pub broadcast proof fn byte_abs<R: ByteRegion>(r: &'static [u8])
        ensures #[trigger] R::abs(r) == r@,
    {
        R::abs_law(r)
    }

    pub broadcast proof fn byte_val<R: BytePush>(item: &'static [u8])
        ensures #[trigger] R::val(item) == item@,
    {
        R::val_law(item)
    }

    pub broadcast proof fn collapse_eq<R: Push<T>, T: CollapseEq<R>>(item: T, r: R::ReadItem)
        ensures #[trigger] item.eq_spec(&r) == T::eqv(item, R::abs(r)),
                item.eq_spec(&r) ==> R::val(item) == R::abs(r),
    {
        T::eq_law(item, r);
        if item.eq_spec(&r) {
            T::eqv_sound(item, R::abs(r));
        }
    }

    pub broadcast proof fn collapse_obeys<R: Push<T>, T: CollapseEq<R>>(item: T, v: R::Val)
        ensures #![trigger T::eqv(item, v)]
            <T as vstd::std_specs::cmp::PartialEqSpec<R::ReadItem>>::obeys_eq_spec(),
    {
        T::eq_obeys();
    }

    pub broadcast proof fn collapse_obeys2<R: Push<T>, T: CollapseEq<R>>(item: T)
        ensures #![trigger R::val(item)]
            <T as vstd::std_specs::cmp::PartialEqSpec<R::ReadItem>>::obeys_eq_spec(),
    {
        T::eq_obeys();
    }

    pub broadcast proof fn collapse_sound<R: Push<T>, T: CollapseEq<R>>(item: T, v: R::Val)
        requires #[trigger] T::eqv(item, v),
        ensures R::val(item) == v,
    {
        T::eqv_sound(item, v)
    }

    pub broadcast group region_laws {
        region_default,
        dense_pair,
        dense_is_dense,
        dense_fresh,
        dense_end,
        byte_abs,
        byte_val,
        collapse_eq,
        collapse_obeys,
        collapse_obeys2,
        collapse_sound,
    }
