    pub trait Storage<T>: Sized + Default + 'static {
        /// Representation invariant.
        spec fn sinv(&self) -> bool;
        /// The sequence of stored values.
        spec fn sview(&self) -> Seq<T>;

        /// Law: `Default::default()` yields an empty, well-formed storage.
        proof fn default_law(r: Self)
            requires call_ensures(<Self as Default>::default, (), r),
            ensures r.sinv(), r.sview() =~= Seq::<T>::empty();

        fn with_capacity(capacity: usize) -> (r: Self)
            ensures r.sinv(), r.sview() =~= Seq::<T>::empty();

        fn reserve(&mut self, additional: usize)
            requires old(self).sinv(),
            ensures final(self).sinv(), final(self).sview() =~= old(self).sview();

        fn clear(&mut self)
            requires old(self).sinv(),
            ensures final(self).sinv(), final(self).sview() =~= Seq::<T>::empty();

        fn len(&self) -> (r: usize)
            requires self.sinv(),
            ensures r == self.sview().len();

        fn is_empty(&self) -> (r: bool)
            requires self.sinv(),
            ensures r == (self.sview().len() == 0);
    }

    pub trait IndexContainer<T>: Storage<T> {
        //@ifnot failstop
        fn index(&self, index: usize) -> (r: T)
            requires self.sinv(), index < self.sview().len(),
            ensures r == self.sview()[index as int];
        //@endif
        //@if failstop
        // Fail-stop reading (D7): a postcondition describes normal return only, so `ensures index < len` means
        // "returns only for in-bounds positions, and then the right element".
        fn index(&self, index: usize) -> (r: T)
            requires self.sinv(),
            ensures index < self.sview().len(), r == self.sview()[index as int];
        //@endif

        fn push(&mut self, item: T)
            requires old(self).sinv(), old(self).sview().len() < usize::MAX,
            ensures final(self).sinv(), final(self).sview() =~= old(self).sview().push(item);
    }

    pub broadcast proof fn storage_default<T, S: Storage<T>>(r: S)
        requires call_ensures(<S as Default>::default, (), r),
        ensures #![trigger call_ensures(<S as Default>::default, (), r), r.sview()]
                #![trigger call_ensures(<S as Default>::default, (), r), r.sinv()]
                r.sinv(), r.sview() =~= Seq::<T>::empty(),
    {
        S::default_law(r)
    }
